CONSTANTS
  MAXH = 8
  FIX = {"clamp"}
  Tpbs = {0, 1, 7} Decs = {0, 1, 5255999, 5256000, 10512001} RatioVals = {0, 1, 33, 50, 100} D = 0
INIT Init
NEXT Next
VIEW View
INVARIANT TypeOK
PROPERTY PC13
CHECK_DEADLOCK FALSE

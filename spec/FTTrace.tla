------------------------------ MODULE FTTrace ------------------------------
EXTENDS FT, Json
CONSTANTS TraceFile
VARIABLE l
Trace == ndJsonDeserialize(TraceFile)
tvars == <<vars, last, l>>
E == Trace[l]
LoggedPost(p) == entries' = p.entries
Lbl(e) == [f \in (DOMAIN e) \ {"post", "x"} |-> e[f]]
SpecAct(e) ==
  CASE e.a = "provision" -> Provision(e.s, e.key, e.addr, e.viewers, e.editors, e.tracking)
    [] e.a = "post" -> Post(e.s, e.pkey, e.ckey, e.caddr, e.owner, e.viewers, e.editors, e.tracking, e.contents)
    [] e.a = "delete" -> Delete(e.s, e.key)
    [] e.a = "chown" -> ChangeOwner(e.s, e.key, e.newkey, e.newowner)
    [] e.a = "addviewers" -> AddAccess("viewers", e.s, e.key, e.ids, e.keys)
    [] e.a = "addeditors" -> AddAccess("editors", e.s, e.key, e.ids, e.keys)
    [] e.a = "rmviewers" -> RemoveAccess("viewers", e.s, e.key, e.ids)
    [] e.a = "rmeditors" -> RemoveAccess("editors", e.s, e.key, e.ids)
    [] e.a = "resetviewers" -> ResetAccess("viewers", e.s, e.key)
    [] e.a = "reseteditors" -> ResetAccess("editors", e.s, e.key)
Report_(kind, name) == PrintT(<<kind, name, l>>)
Chk(name, F) == IF F THEN TRUE ELSE Report_("VIOL", name)
NT(name, F) == IF F THEN Report_("NT", name) ELSE TRUE
\* non-trivial: a message about an existing entry that is signed by a non-owner / non-editor, or one that changes the tree
NT10 == \/ entries' # entries
        \/ ("key" \in DOMAIN last' /\ last'.key \in DOMAIN entries /\ ~IsOwner(entries[last'.key], last'.s))
        \/ (last'.a = "post" /\ last'.pkey \in DOMAIN entries /\ ~HasEdit(entries[last'.pkey], last'.s))
TStep == /\ E.a # "reset" /\ l' = l + 1
         /\ LoggedPost(E.post) /\ last' = Lbl(E)
         /\ (IF SpecAct(E) THEN TRUE ELSE Report_("DRIFT", E.a))
         /\ Chk("C10_Step", C10_Step) /\ Chk("C10_Store", "!store-mismatch" \notin DOMAIN entries')
         /\ NT("C10", NT10)
TReset == /\ E.a = "reset" /\ l' = l + 1 /\ LoggedPost(E.post) /\ last' = [a |-> "reset", ok |-> TRUE]
TInit == l = 1 /\ entries = <<>> /\ last = [a |-> "init", ok |-> TRUE]
TNext == l <= Len(Trace) /\ (TStep \/ TReset)
TSpec == TInit /\ [][TNext]_tvars
HW == TLCSet(1, IF TLCGet(1) < l THEN l ELSE TLCGet(1))
ASSUME TLCSet(1, 0)
Accepted == IF TLCGet(1) = Len(Trace) + 1 THEN PrintT(<<"ACCEPTED", Len(Trace)>>)
            ELSE PrintT(<<"REJECTED_AT", TLCGet(1)>>)
=============================================================================

CONSTANTS
  TraceFile = "trace.ndjson"
  Denoms = {"ujkl", "uusd"}
  MintDenom = "ujkl"
  FIX = {"refund", "passfee", "fullmint"}
SPECIFICATION TSpec
CONSTRAINT HW
POSTCONDITION Accepted
CHECK_DEADLOCK FALSE

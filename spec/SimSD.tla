------------------------------- MODULE SimSD -------------------------------
(* Behaviour generation from the SD model: history of labels printed as JSON. *)
EXTENDS MCSD, Json
CONSTANT D
VARIABLE hist
SimInit == Init /\ hist = <<>>
End == UNCHANGED <<vars, ghosts>> /\ last' = [a |-> "end", ok |-> TRUE] /\ hist' = hist
\* labels carry the chain-chosen values only as suggestions; the harness logs what the chain did
SimNext == IF Len(hist) >= D THEN End
           ELSE /\ NextAll
                /\ hist' = Append(hist, last')
                /\ (last'.ok \/ RandomElement(1..3) = 1)
                /\ (last'.a # "block" \/ RandomElement(1..2) = 1)
Emit == last.a # "end" \/ PrintT(<<"SCN", ToJson(hist)>>)
=============================================================================

CONSTANTS
  Owners = {"u1"} Provers = {"p1", "p2", "p3"} Merkles = {"m1"} Reps = {3} Rels = {0, 30} Doms = {}
  MAXH = 8
  FIX = {"addprover", "walk", "repost"}
  PI = 2 PC = 3 PCS = 2 PFS = 1 PMIN = 1 PPRICE = 0 FUND = 0 GAUGE0 = 90 H0 = 2 Prices = {} SZ1 = 3 SZ2 = 5 SZ3 = 1 GAUGE2 = 9 Rels2 = {0, 3} MaxFiles = 1
INIT Init
NEXT NextRewards
VIEW View
INVARIANTS C01_Listed C17_Indexes C17_Lists C02_ChallengeInRange TypeOK
PROPERTIES PC01a PC01b PC02a PC02b PC03
CHECK_DEADLOCK FALSE

------------------------------- MODULE MCSP -------------------------------
EXTENDS SP
CONSTANTS Slots, Quotes, Units, Days, SzsPos, SzsNeg, Mps, Dts, PREF, PPOL, PCW, PIW, FUND, H0, Ratios, MaxFiles

Accts == Payers \cup Others
Szs == SzsPos \cup {0 - x : x \in SzsNeg}
Init == /\ plans = <<>> /\ files = <<>> /\ gauges = <<>>
        /\ bal = [a \in Accts \cup Slots \cup {MODS, POL, FEES, "other"} |-> IF a \in Payers THEN FUND ELSE 0]
        /\ now = 0 /\ height = H0
        /\ par = [ref |-> PREF, pol |-> PPOL, C |-> PCW, I |-> PIW]
        /\ dep = <<>> /\ rel = <<>>
        /\ last = [a |-> "init", ok |-> TRUE]
G(A) == A /\ GhostNext

FreeSlots == {g \in Slots : g \notin DOMAIN dep}
\* the chain-derived gauge account: a fresh one, or (pinned id scheme) an existing gauge with identical parameters
GidFor(endt, amt) ==
  LET same == {g \in DOMAIN gauges : gauges[g] = [start |-> now, end |-> endt, amt |-> amt]} IN
  IF ~Fixed("gaugeid") /\ same # {} THEN same ELSE FreeSlots
BuyGid(s, days, ref, quote) ==
  LET referred == ref # "none" /\ ref # s
      disc == IF ~referred THEN 0 ELSE IF days > 365 THEN 5 ELSE 10
      paid == Pct(quote, 100 - disc) IN GidFor(now + days * 24, Pct(paid, 100 - par.ref - par.pol))
NextBuy == \E s \in Payers, for \in Payers, u \in Units, d \in Days, ref \in {"none"} \cup Accts, q \in Quotes :
             \E gid \in BuyGid(s, d, ref, q) : BuyStorage(s, for, u, d, ref, q, gid)
NextPost ==
  /\ Cardinality(DOMAIN files) < MaxFiles \/ \E f \in DOMAIN files : f[3] = height
  /\ \E s \in Payers, m \in {"m1"}, sz \in Szs, mp \in Mps :
        \/ PostFile(s, m, sz, mp, "plan", 0, 0, "none")
        \/ \E d \in {0, 2}, q \in Quotes : \E gid \in GidFor(now + d * 24, Pct(q, 100 - par.ref - par.pol)) :
              PostFile(s, m, sz, mp, "once", d, q, gid)
NextDelete == \E f \in DOMAIN files : DeleteFile(f[2], f[1], f[3])
ExactOut(t) == [g \in DOMAIN gauges |->
   IF gauges[g].end < t \/ gauges[g].end <= gauges[g].start \/ bal[g] = 0 THEN 0 ELSE Due(g, t)]
NextBlock == \E dt \in Dts : \E gone \in SUBSET {f \in DOMAIN files : ~Young(files[f], height + 1)} :
   LET reward == (height + 1) % par.C = 0 IN
   Block(dt, IF reward THEN gone ELSE {}, IF reward THEN ExactOut(now + dt) ELSE [g \in DOMAIN gauges |-> 0], <<>>)
NextRatios == \E r \in Ratios : SetRatios(r[1], r[2])
MCRatios == {<<25, 40>>, <<0, 10>>, <<40, 60>>, <<5, 10>>, <<25, 5>>}
NextProof == \E f \in DOMAIN files : PostProof("p1", f)

NextPay   == G(NextBuy \/ NextBlock)
NextSpace == G(NextBuy \/ NextPost \/ NextDelete \/ NextBlock)
NextAll   == G(NextBuy \/ NextPost \/ NextDelete \/ NextBlock \/ NextRatios \/ NextProof)

View == <<vars, ghosts>>
AV == <<vars, ghosts, last>>
PC04 == [][C04_Buy /\ C04_PayOnce /\ C04_Other]_AV
PC07 == [][C07_Reject]_AV
PC12 == [][C12_Gauges]_AV
=============================================================================

CONSTANTS
  Acc = {"o", "e", "x"} Children = {"c", "d"} MaxDepth = 5 Tracks = {"t1", "t2"} Ws = {"viewers", "editors"} MaxEntries = 5
  D = 30
INIT SimInit
NEXT SimNext
INVARIANT Emit
CHECK_DEADLOCK FALSE

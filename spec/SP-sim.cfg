CONSTANTS
  Payers = {"a", "b"} Others = {"r", "p1"}
  MAXH = 60
  FIX = {"ref", "space", "gaugeid", "sizes"}
  Slots = {"g1", "g2", "g3", "g4", "g5", "g6", "g7", "g8", "g9", "g10", "g11", "g12"}
  Quotes = {2000, 70000} Units = {1000, 3000} Days = {30, 60, 400} SzsPos = {300, 700} SzsNeg = {} Mps = {1, 2} Dts = {0, 2, 40, 720}
  PREF = 25 PPOL = 40 PCW = 2 PIW = 2 FUND = 1000000 Ratios <- MCRatios MaxFiles = 3
  H0 = 2
  D = 40
INIT SimInit
NEXT SimNext
INVARIANT Emit
CHECK_DEADLOCK FALSE

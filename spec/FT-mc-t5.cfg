CONSTANTS
  Acc = {"o", "e"} Children = {"c"} MaxDepth = 3 Tracks = {"t1"} Ws = {"viewers", "editors"} MaxEntries = 3
INIT Init
NEXT Next
VIEW View
PROPERTY PC10
CHECK_DEADLOCK FALSE

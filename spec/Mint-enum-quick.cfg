CONSTANTS
  MAXH = 100
  FIX = {"clamp"}
  Tpbs = {0, 1, 12} Decs = {0, 5256000, 10512001} RatioVals = {0, 33, 100}
  D = 14
INIT Init
NEXT EnumNext
INVARIANT EmitLeaf
CHECK_DEADLOCK FALSE

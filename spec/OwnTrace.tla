------------------------------ MODULE OwnTrace ------------------------------
EXTENDS Own, Json
CONSTANTS TraceFile
VARIABLE l
Trace == ndJsonDeserialize(TraceFile)
tvars == <<vars, last, l>>
E == Trace[l]
R(q) == {q[i] : i \in DOMAIN q}
LoggedPost(p) == /\ providers' = p.providers /\ feeds' = p.feeds /\ primary' = p.primary
                 /\ blocks' = {<<b[1], b[2]>> : b \in R(p.blocks)} /\ files' = {<<f[1], f[2], f[3]>> : f \in R(p.files)}
                 /\ inbox' = {<<b[1], b[2]>> : b \in R(p.inbox)} /\ height' = p.height
Lbl(e) == [f \in (DOMAIN e) \ {"post", "x", "once"} |-> e[f]]
SpecAct(e) ==
  CASE e.a = "initprovider" -> InitProvider(e.s, e.v)
    [] e.a = "shutdown" -> Shutdown(e.s)
    [] e.a = "setip" -> SetField(e.s, "ip", e.v)
    [] e.a = "setkeybase" -> SetField(e.s, "keybase", e.v)
    [] e.a = "setspace" -> SetField(e.s, "space", e.v)
    [] e.a = "addclaimer" -> AddClaimer(e.s, e.c)
    [] e.a = "rmclaimer" -> RmClaimer(e.s, e.c)
    [] e.a = "createfeed" -> CreateFeed(e.s, e.n)
    [] e.a = "updatefeed" -> UpdateFeed(e.s, e.n, e.d)
    [] e.a = "makeprimary" -> MakePrimary(e.s, e.n)
    [] e.a = "blocksender" -> BlockSender(e.s, e.b)
    [] e.a = "postfile" -> PostFile(e.s, e.m)
    [] e.a = "deletefile" -> DeleteFile(e.s, e.m, e.st)
    [] e.a = "contractpost" -> ContractPost(e.s, e.creator, e.m)
    [] e.a = "notify" -> Notify(e.s, e.to)
    [] e.a = "delnotif" -> DelNotif(e.s, e.from)
    [] e.a = "tick" -> Tick
Report_(kind, name) == PrintT(<<kind, name, l>>)
Chk(name, F) == IF F THEN TRUE ELSE Report_("VIOL", name)
NT(name, F) == IF F THEN Report_("NT", name) ELSE TRUE
\* non-trivial: an owner-only message aimed at a resource that exists and belongs to somebody else, or any effective step
NTOwn == \/ vars' # vars
         \/ (last'.a = "updatefeed" /\ last'.n \in DOMAIN feeds /\ feeds[last'.n].owner # last'.s)
         \/ (last'.a = "deletefile" /\ \E f \in files : f[1] = last'.m /\ f[3] = last'.st /\ f[2] # last'.s)
         \/ (last'.a = "contractpost" /\ last'.creator # last'.s)
         \/ (last'.a \in {"blocksender", "delnotif"} /\ \E e \in inbox : e[1] # last'.s)
TStep == /\ E.a # "reset" /\ l' = l + 1
         /\ LoggedPost(E.post) /\ last' = Lbl(E)
         /\ (IF SpecAct(E) THEN TRUE ELSE Report_("DRIFT", E.a))
         /\ Chk("C11_Own", C11_Own)
         /\ NT("C11", NTOwn)
TReset == /\ E.a = "reset" /\ l' = l + 1 /\ LoggedPost(E.post) /\ last' = [a |-> "reset", s |-> "none", ok |-> TRUE]
TInit == /\ l = 1 /\ providers = <<>> /\ feeds = <<>> /\ primary = <<>> /\ blocks = {} /\ files = {} /\ inbox = {} /\ height = 0
         /\ last = [a |-> "init", s |-> "none", ok |-> TRUE]
TNext == l <= Len(Trace) /\ (TStep \/ TReset)
TSpec == TInit /\ [][TNext]_tvars
HW == TLCSet(1, IF TLCGet(1) < l THEN l ELSE TLCGet(1))
ASSUME TLCSet(1, 0)
Accepted == IF TLCGet(1) = Len(Trace) + 1 THEN PrintT(<<"ACCEPTED", Len(Trace)>>)
            ELSE PrintT(<<"REJECTED_AT", TLCGet(1)>>)
=============================================================================

------------------------------- MODULE Rns -------------------------------
(* Name service (x/rns) of canine-chain: one action per message handler.           *)
(* Handlers: x/rns/keeper/msg_server_*.go.  Failure = labelled no-op (SDK discards *)
(* the writes of a message that returns an error).                                 *)
(* Properties decided here: C08 (owner consent), C09 (bid escrow), C16 (register). *)
EXTENDS Integers, Sequences, FiniteSets, TLC

CONSTANTS
  Acc,       \* user account labels
  Names,     \* full names "label.tld" the model checker's Next ranges over
  NameInfo,  \* [Names -> [len, tld]]   (overridden in MC modules; traces log len/tld per event)
  FreeNames, \* names the chain may hand out for MsgInit (chain-chosen, nondeterministic here)
  Denoms, Years, Datas, Recs, Prices, Jumps,
  YEAR,      \* 5484530 blocks, msg_server_register.go:39
  FREETERM,  \* 5733818 blocks, msg_server_init.go
  MAXH,
  FIX        \* set of repaired deviations: subset of {"stale","lapsed","bid"}; {} = pinned tree

VARIABLES names, sale, bids, primary, inited, bal, height, last
vars == <<names, sale, bids, primary, inited, bal, height>>

MOD == "m:rns"
POL == "pol"
Fixed(x) == x \in FIX

TLDCost == [ibc |-> 50000000, jkl |-> 10000000]          \* x/rns/types/tlds.go
Tier(len) == CASE len = 1 -> 24 [] len = 2 -> 12 [] len = 3 -> 6 [] len = 4 -> 3 [] OTHER -> 1
Cost(len, tld) == TLDCost[tld] * Tier(len)               \* keeper/utils.go GetCostOfName

Put(f, k, v) == [x \in (DOMAIN f) \cup {k} |-> IF x = k THEN v ELSE f[x]]
Del(f, k)    == [x \in (DOMAIN f) \ {k} |-> f[x]]
Pay(b, from, to, d, amt) == [b EXCEPT ![from][d] = @ - amt, ![to][d] = @ + amt]
Has(b, a, d, amt) == a \in DOMAIN b /\ b[a][d] >= amt

Exists(n) == n \in DOMAIN names
Live(n)   == Exists(n) /\ height <= names[n].exp

Fail(lbl) == UNCHANGED vars /\ last' = [lbl EXCEPT !.ok = FALSE]

---------------------------------------------------------------------------
(* RegisterRNSName, msg_server_register.go *)
\* yp = the chain's own yearly price for this name (exported GetCostOfName), logged with the message.
\* C16Step checks the debit against yp; RnsTrace!C16_Listed checks yp against the listed tariff: the chain's exported
\* per-TLD base price (types.TLDCost, logged as base) times the length tier Tier(len) below, so a wrong tier is a
\* violation, while a repricing of the listed TLD base is only drift against this model's TLDCost.
Register(s, n, len, tld, y, data, prim, yp) ==
  LET lbl  == [a |-> "register", s |-> s, n |-> n, len |-> len, tld |-> tld, y |-> y,
               data |-> data, prim |-> prim, yp |-> yp, ok |-> TRUE]
      cost == Cost(len, tld) * y
      ex   == Exists(n)
      mine == ex /\ names[n].owner = s
      reject == ex /\ ~mine /\ (IF Fixed("lapsed") THEN height <= names[n].exp ELSE height < names[n].exp)
      newexp == IF ~ex THEN height + y * YEAR
                ELSE IF Fixed("lapsed")
                     THEN (IF height > names[n].exp THEN height + y * YEAR ELSE names[n].exp + y * YEAR)
                     ELSE (IF mine THEN names[n].exp + y * YEAR ELSE y * YEAR)
      nn == Put(names, n, [owner |-> s, exp |-> newexp, locked |-> 0, data |-> data, recs |-> <<>>])
      hasPrim == s \in DOMAIN primary /\ primary[s] \in DOMAIN nn
  IN IF y < 1 \/ reject \/ ~Has(bal, s, "ujkl", cost) THEN Fail(lbl)
     ELSE /\ names' = nn
          /\ bal' = Pay(bal, s, POL, "ujkl", cost)
          /\ primary' = IF prim \/ ~hasPrim THEN Put(primary, s, n) ELSE primary
          /\ UNCHANGED <<sale, bids, inited, height>> /\ last' = lbl

(* msg_server_list.go *)
List(s, n, p) ==
  LET lbl == [a |-> "list", s |-> s, n |-> n, p |-> p, ok |-> TRUE]
  IN IF n \in DOMAIN sale \/ ~Exists(n) THEN Fail(lbl)
     ELSE IF names[n].owner # s \/ names[n].locked > height \/ height > names[n].exp THEN Fail(lbl)
     ELSE /\ sale' = Put(sale, n, [lister |-> s, price |-> p])
          /\ UNCHANGED <<names, bids, primary, inited, bal, height>> /\ last' = lbl

(* msg_server_delist.go *)
Delist(s, n) ==
  LET lbl == [a |-> "delist", s |-> s, n |-> n, ok |-> TRUE]
  IN IF n \notin DOMAIN sale \/ ~Exists(n) THEN Fail(lbl)
     ELSE IF sale[n].lister # s \/ names[n].owner # sale[n].lister THEN Fail(lbl)
     ELSE /\ sale' = Del(sale, n)
          /\ UNCHANGED <<names, bids, primary, inited, bal, height>> /\ last' = lbl

(* BuyName, msg_server_buy.go; deviation "stale": the pinned code does not compare the     *)
(* listing's owner with the name's current owner.                                           *)
Buy(s, n) ==
  LET lbl == [a |-> "buy", s |-> s, n |-> n, ok |-> TRUE]
  IN IF n \notin DOMAIN sale \/ ~Exists(n) THEN Fail(lbl)
     ELSE IF height > names[n].exp \/ names[n].owner = s
             \/ (Fixed("stale") /\ names[n].owner # sale[n].lister)
             \/ ~Has(bal, s, sale[n].price.d, sale[n].price.amt)
             \/ sale[n].lister \notin DOMAIN bal THEN Fail(lbl)
     ELSE /\ bal' = Pay(bal, s, sale[n].lister, sale[n].price.d, sale[n].price.amt)
          /\ names' = [names EXCEPT ![n].owner = s, ![n].data = "{}"]
          /\ sale' = Del(sale, n)
          /\ UNCHANGED <<bids, primary, inited, height>> /\ last' = lbl

(* AddBid, msg_server_bid.go; deviation "bid": the pinned code overwrites without refund *)
Bid(s, n, p) ==
  LET lbl == [a |-> "bid", s |-> s, n |-> n, p |-> p, ok |-> TRUE]
      k   == <<s, n>>
      b1  == IF Fixed("bid") /\ k \in DOMAIN bids THEN Pay(bal, MOD, s, bids[k].d, bids[k].amt) ELSE bal
  IN IF p.amt < 1 \/ ~Has(b1, s, p.d, p.amt) THEN Fail(lbl)
     ELSE /\ bal' = Pay(b1, s, MOD, p.d, p.amt)
          /\ bids' = Put(bids, k, p)
          /\ UNCHANGED <<names, sale, primary, inited, height>> /\ last' = lbl

(* CancelOneBid *)
Cancel(s, n) ==
  LET lbl == [a |-> "cancel", s |-> s, n |-> n, ok |-> TRUE]
      k   == <<s, n>>
  IN IF k \notin DOMAIN bids THEN Fail(lbl)
     ELSE IF ~Has(bal, MOD, bids[k].d, bids[k].amt) THEN Fail(lbl)
     ELSE /\ bal' = Pay(bal, MOD, s, bids[k].d, bids[k].amt)
          /\ bids' = Del(bids, k)
          /\ UNCHANGED <<names, sale, primary, inited, height>> /\ last' = lbl

(* AcceptOneBid *)
Accept(s, n, b) ==
  LET lbl == [a |-> "accept", s |-> s, n |-> n, b |-> b, ok |-> TRUE]
      k   == <<b, n>>
  IN IF ~Exists(n) THEN Fail(lbl)
     ELSE IF height > names[n].exp \/ names[n].owner # s \/ names[n].locked > height
             \/ k \notin DOMAIN bids THEN Fail(lbl)
     ELSE IF ~Has(bal, MOD, bids[k].d, bids[k].amt) THEN Fail(lbl)
     ELSE /\ bal' = Pay(bal, MOD, s, bids[k].d, bids[k].amt)
          /\ bids' = Del(bids, k)
          /\ names' = [names EXCEPT ![n].owner = b, ![n].data = "{}"]
          /\ UNCHANGED <<sale, primary, inited, height>> /\ last' = lbl

(* TransferName *)
Transfer(s, n, r) ==
  LET lbl == [a |-> "transfer", s |-> s, n |-> n, r |-> r, ok |-> TRUE]
  IN IF ~Exists(n) THEN Fail(lbl)
     ELSE IF height > names[n].exp \/ names[n].owner # s \/ names[n].locked > height THEN Fail(lbl)
     ELSE /\ names' = [names EXCEPT ![n].owner = r, ![n].data = "{}"]
          /\ UNCHANGED <<sale, bids, primary, inited, bal, height>> /\ last' = lbl

(* UpdateName *)
Update(s, n, data) ==
  LET lbl == [a |-> "update", s |-> s, n |-> n, data |-> data, ok |-> TRUE]
  IN IF ~Exists(n) THEN Fail(lbl)
     ELSE IF names[n].owner # s \/ height > names[n].exp THEN Fail(lbl)
     ELSE /\ names' = [names EXCEPT ![n].data = data]
          /\ UNCHANGED <<sale, bids, primary, inited, bal, height>> /\ last' = lbl

InSeq(x, q) == \E i \in DOMAIN q : q[i] = x
Without(q, x) == SelectSeq(q, LAMBDA e : e # x)

(* AddRecord *)
AddRec(s, n, r) ==
  LET lbl == [a |-> "addrec", s |-> s, n |-> n, r |-> r, ok |-> TRUE]
  IN IF ~Exists(n) THEN Fail(lbl)
     ELSE IF height > names[n].exp \/ names[n].owner # s \/ InSeq(r, names[n].recs) THEN Fail(lbl)
     ELSE /\ names' = [names EXCEPT ![n].recs = Append(@, r)]
          /\ UNCHANGED <<sale, bids, primary, inited, bal, height>> /\ last' = lbl

(* DelRecord *)
DelRec(s, n, r) ==
  LET lbl == [a |-> "delrec", s |-> s, n |-> n, r |-> r, ok |-> TRUE]
  IN IF ~Exists(n) THEN Fail(lbl)
     ELSE IF height > names[n].exp \/ names[n].owner # s \/ ~InSeq(r, names[n].recs) THEN Fail(lbl)
     ELSE /\ names' = [names EXCEPT ![n].recs = Without(@, r)]
          /\ UNCHANGED <<sale, bids, primary, inited, bal, height>> /\ last' = lbl

(* Init (free name), msg_server_init.go; n is the chain-chosen name *)
InitFree(s, n) ==
  LET lbl == [a |-> "initfree", s |-> s, n |-> n, ok |-> TRUE]
  IN IF s \in inited \/ (Exists(n) /\ height < names[n].exp) THEN Fail(lbl)
     ELSE /\ inited' = inited \cup {s}
          /\ names' = Put(names, n, [owner |-> s, exp |-> FREETERM + height, locked |-> FREETERM + height,
                                      data |-> "{}", recs |-> <<>>])
          /\ UNCHANGED <<sale, bids, primary, bal, height>> /\ last' = lbl

(* MakePrimary: no check at all in the handler *)
MakePrimary(s, n) ==
  /\ primary' = Put(primary, s, n)
  /\ UNCHANGED <<names, sale, bids, inited, bal, height>>
  /\ last' = [a |-> "makeprimary", s |-> s, n |-> n, ok |-> TRUE]

Jump(h) ==
  /\ h > height /\ h <= MAXH
  /\ height' = h
  /\ UNCHANGED <<names, sale, bids, primary, inited, bal>>
  /\ last' = [a |-> "jump", h |-> h, ok |-> TRUE]

---------------------------------------------------------------------------
JumpTargets == {height + 1} \cup UNION {{names[n].exp - 1, names[n].exp, names[n].exp + 1} : n \in DOMAIN names}
               \cup UNION {{names[n].locked, names[n].locked + 1} : n \in DOMAIN names}

NextCore ==
  \/ \E s \in Acc, n \in Names, y \in Years, d \in Datas, pr \in BOOLEAN :
        Register(s, n, NameInfo[n].len, NameInfo[n].tld, y, d, pr, Cost(NameInfo[n].len, NameInfo[n].tld))
  \/ \E s \in Acc, n \in Names, p \in Prices : List(s, n, p) \/ Bid(s, n, p)
  \/ \E s \in Acc, n \in Names : Delist(s, n) \/ Buy(s, n) \/ Cancel(s, n)
  \/ \E s \in Acc, n \in Names, r \in Acc : (r # s /\ Transfer(s, n, r)) \/ Accept(s, n, r)
  \/ \E h \in JumpTargets \cap Jumps : Jump(h)
NextAux ==
  \/ \E s \in Acc, n \in Names : MakePrimary(s, n)
  \/ \E s \in Acc, n \in Names, d \in Datas : Update(s, n, d)
  \/ \E s \in Acc, n \in Names, r \in Recs : AddRec(s, n, r) \/ DelRec(s, n, r)
  \* the chain derives the free name from the block height (types.MakeName: noun/adjective by height, suffix height % 1000);
  \* two heights exactly one free term (5733818 blocks) apart never yield the same name, so the generator is assumed not
  \* to hand out a name at the very height at which an earlier free name lapses
  \/ \E s \in Acc, n \in FreeNames : (Exists(n) => height # names[n].exp) /\ InitFree(s, n)
Next == NextCore \/ NextAux

---------------------------------------------------------------------------
(* Properties. All are formulas over (vars, last', vars') so that the same text is   *)
(* evaluated on model transitions and on recorded transitions of the real chain.     *)

Delta(a, d) == bal'[a][d] - bal[a][d]
SumBids(d) ==
  LET S[X \in SUBSET DOMAIN bids] ==
        IF X = {} THEN 0
        ELSE LET x == CHOOSE x \in X : TRUE
             IN (IF bids[x].d = d THEN bids[x].amt ELSE 0) + S[X \ {x}]
  IN S[DOMAIN bids]

\* C09 (state): the module account holds exactly the open bids
C09_Escrow == \A d \in Denoms : bal[MOD][d] = SumBids(d)

\* C09 (step)
C09Step ==
  LET l == last' IN
  /\ (l.a = "cancel" /\ l.ok) =>
        LET k == <<l.s, l.n>> IN
        /\ k \in DOMAIN bids /\ k \notin DOMAIN bids'
        /\ Delta(l.s, bids[k].d) = bids[k].amt
  /\ (l.a = "accept" /\ l.ok) =>
        LET k == <<l.b, l.n>> IN
        /\ k \in DOMAIN bids /\ k \notin DOMAIN bids'
        /\ Exists(l.n) /\ Delta(names[l.n].owner, bids[k].d) = bids[k].amt
  /\ (l.a \in {"register", "buy"}) => bal'[MOD] = bal[MOD]
  /\ (l.a = "bid" /\ ~l.ok) => (bal' = bal /\ bids' = bids)

\* C08 (step): a live name changes owner only with the consent of the owner immediately
\* before, who is paid; foreign-signed messages change neither owner, data nor records.
LegitBuy(n) == LET l == last' IN
  /\ l.a = "buy" /\ l.ok /\ l.n = n /\ n \in DOMAIN sale
  /\ sale[n].lister = names[n].owner
  /\ names'[n].owner = l.s
  /\ Delta(names[n].owner, sale[n].price.d) = sale[n].price.amt
LegitAccept(n) == LET l == last' IN
  /\ l.a = "accept" /\ l.ok /\ l.n = n /\ l.s = names[n].owner
  /\ <<l.b, n>> \in DOMAIN bids /\ names'[n].owner = l.b
  /\ Delta(names[n].owner, bids[<<l.b, n>>].d) = bids[<<l.b, n>>].amt
LegitTransfer(n) == LET l == last' IN
  /\ l.a = "transfer" /\ l.ok /\ l.n = n /\ l.s = names[n].owner /\ names'[n].owner = l.r
C08Name(n) ==
  LET l == last' IN
  Live(n) =>
    /\ n \in DOMAIN names'
    /\ names'[n].owner # names[n].owner => (LegitBuy(n) \/ LegitAccept(n) \/ LegitTransfer(n))
    /\ ("s" \in DOMAIN l /\ l.s # names[n].owner /\ ~LegitBuy(n)) =>
          /\ names'[n].owner = names[n].owner
          /\ names'[n].data = names[n].data
          /\ names'[n].recs = names[n].recs
\* consent is recorded in the sale table: a listing appears or changes only through a successful List message of the
\* account it names as lister (no other handler may write or re-attribute a listing), and its price is the one listed
C08Sale == \A n \in DOMAIN sale' :
             (n \notin DOMAIN sale \/ sale'[n] # sale[n]) =>
                LET l == last' IN l.a = "list" /\ l.ok /\ l.n = n /\ sale'[n].lister = l.s /\ sale'[n].price = l.p
\* consent can be withdrawn: after a successful Delist the listing is gone (whatever the spelling of the name in the message)
C08Delist == LET l == last' IN (l.a = "delist" /\ l.ok) => l.n \notin DOMAIN sale'
C08Step == (\A n \in DOMAIN names : C08Name(n)) /\ C08Sale /\ C08Delist

\* C16 (step)
C16Step ==
  LET l == last' IN
  (l.a = "register") =>
    IF l.ok THEN
      LET n == l.n  c == l.yp * l.y IN
      /\ Delta(l.s, "ujkl") = -c /\ Delta(POL, "ujkl") = c
      /\ \A a \in DOMAIN bal : \A d \in Denoms : (a \notin {l.s, POL} \/ d # "ujkl") => Delta(a, d) = 0
      /\ n \in DOMAIN names' /\ names'[n].owner = l.s
      /\ names'[n].exp >= height + l.y * YEAR
      /\ (Live(n) /\ names[n].owner = l.s) => names'[n].exp = names[n].exp + l.y * YEAR
      /\ ~(Live(n) /\ names[n].owner # l.s)
    ELSE bal' = bal

TypeOK == /\ \A a \in DOMAIN bal : \A d \in Denoms : bal[a][d] >= 0
          /\ height >= 0
=============================================================================

CONSTANTS
  Acc = {"a", "b"} Names = {"alpha.jkl"} NameInfo <- MCNameInfo FreeNames = {"freeone.jkl"}
  Denoms = {"ujkl"} Years = {1} Datas = {"{}", "d1"} Recs = {"r1"}
  Prices <- MCPrices PriceAmts = {2000000}
  Jumps = {5484532, 5484533, 5733820, 5733821}
  YEAR = 5484530 FREETERM = 5733818 MAXH = 11000000
  FIX = {"stale", "lapsed", "bid"}
  H0 = 2 FUND = 12000000
INIT Init
NEXT Next
VIEW View
INVARIANTS C09_Escrow TypeOK
PROPERTIES PC08 PC09 PC16
CHECK_DEADLOCK FALSE

------------------------------- MODULE MCSD -------------------------------
(* Model-checking wrapper of SD: initial state, bounded parameter choices. *)
EXTENDS SD
CONSTANTS PI, PC, PCS, PFS, PMIN, PPRICE, FUND, GAUGE0, H0, Prices, MaxFiles, SZ1, SZ2, SZ3, GAUGE2, Rels2
\* the size of a file is a function of its content label (one label = one byte string)
SizeOf(m) == CASE m = "m1" -> SZ1 [] m = "m2" -> SZ2 [] OTHER -> SZ3

Accts == Owners \cup Provers
Init == /\ files = <<>> /\ filesO = <<>> /\ proofs = <<>> /\ providers = <<>> /\ collat = <<>>
        /\ attest = <<>> /\ report = <<>>
        /\ bal = [a \in Accts \cup {MODS, MODC, GAUGES, "other"} |->
                    IF a \in Accts THEN FUND ELSE IF a = GAUGES THEN GAUGE0 ELSE 0]
        /\ bal2 = [a \in Accts \cup {MODS, MODC, GAUGES, "other"} |-> IF a = GAUGES THEN GAUGE2 ELSE 0]
        /\ height = H0
        /\ par = [I |-> PI, C |-> PC, cs |-> PCS, fs |-> PFS, min |-> PMIN, price |-> PPRICE]
        /\ earned = {} /\ ever = {} /\ signers = <<>> /\ missed = {} /\ pwin = <<>>
        /\ last = [a |-> "init", ok |-> TRUE]

G(A) == A /\ GhostNext

Cur(p, fid) == IF HasRec(p, fid) THEN proofs[<<p, fid>>].chunk ELSE 0
\* proof attempts: honest, valid proof of another chunk, ToProve/payload mismatch, junk payload
Attempts(p, fid) == LET c == Cur(p, fid) IN
  { [tp |-> c, c |-> c, claim |-> "valid"], [tp |-> c + 1, c |-> c + 1, claim |-> "valid"],
    [tp |-> c + 1, c |-> c, claim |-> "valid"], [tp |-> c, c |-> c, claim |-> "junk"] }
ExactPay(R) == LET h == height + 1 IN
  [p \in Provers |-> IF (height + 1) % par.C = 0 /\ p \in AllListed THEN Share(R, Credit(p, h), TotalListed) ELSE 0]
BlockMC == \E R \in Rels, R2 \in Rels2 : (IF (height + 1) % par.C = 0 THEN R <= bal[GAUGES] /\ R2 <= bal2[GAUGES] ELSE R = 0 /\ R2 = 0) /\ Block(R, ExactPay(R), R2, ExactPay(R2))

NextFiles ==
  \/ Cardinality(DOMAIN files) < MaxFiles /\ \E o \in Owners, m \in Merkles, mp \in Reps : PostFile(o, m, SizeOf(m), mp)
  \/ \E fid \in DOMAIN files : DeleteFile(fid[2], fid[1], fid[3])
NextProofs ==
  \/ \E p \in Provers, fid \in DOMAIN files : \E at \in Attempts(p, fid) : \E nc \in ChalRange(files[fid].size, par.cs) :
        PostProof(p, fid, at.tp, at.c, at.claim, nc)
  \/ \E p \in Provers, m \in Merkles : PostProof(p, <<m, "nobody", 0>>, 0, 0, "valid", 0)
NextProv ==
  \/ \E p \in Provers, d \in Doms : InitProvider(p, d) \/ SetIP(p, d)
  \/ \E p \in Provers : Shutdown(p)
NextForms ==
  \/ \E p \in Provers, fid \in DOMAIN files :
        \/ \E S \in SUBSET Eligible(p) : Cardinality(S) = par.fs /\ ReqAttest(p, fid, SetToSeq(S))
        \/ Cardinality(Eligible(p)) < par.fs /\ ReqAttest(p, fid, <<>>)
        \/ \E s \in Provers : Attest(s, p, fid) \/ Report(s, p, fid)
        \/ \E s \in Owners : \/ \E S \in SUBSET Eligible(p) : Cardinality(S) = par.fs /\ ReqReport(s, p, fid, SetToSeq(S))
                             \/ Cardinality(Eligible(p)) < par.fs /\ ReqReport(s, p, fid, <<>>)
NextPrice == \E x \in Prices : SetPrice(x)

DomOf(p) == CASE p = "p1" -> "d1" [] p = "p2" -> "d2" [] OTHER -> "d3"
NextProvQ == \E p \in Provers : InitProvider(p, DomOf(p)) \/ (p = "p3" /\ Shutdown(p))
NextProofsQ == \E p \in Provers, fid \in DOMAIN files : \E nc \in ChalRange(files[fid].size, par.cs) :
                  PostProof(p, fid, Cur(p, fid), Cur(p, fid), "valid", nc)
NextFilesQ == Cardinality(DOMAIN files) < MaxFiles /\ \E o \in Owners, m \in Merkles, mp \in Reps : PostFile(o, m, SizeOf(m), mp)
NextFormsQ ==
  \E fid \in DOMAIN files : LET p == "p1" IN
        \/ \E S \in SUBSET Eligible(p) : Cardinality(S) = par.fs /\ ReqAttest(p, fid, SetToSeq(S))
        \/ Cardinality(Eligible(p)) < par.fs /\ ReqAttest(p, fid, <<>>)
        \/ \E s \in Provers : Attest(s, p, fid) \/ Report(s, p, fid)
        \/ \E s \in Owners : \/ \E S \in SUBSET Eligible(p) : Cardinality(S) = par.fs /\ ReqReport(s, p, fid, SetToSeq(S))
                             \/ Cardinality(Eligible(p)) < par.fs /\ ReqReport(s, p, fid, <<>>)
NextQuorumQ == G(NextFilesQ \/ NextProofsQ \/ NextProvQ \/ NextFormsQ \/ BlockMC)
NextRewards == G(NextFiles \/ NextProofs \/ BlockMC)
NextQuorum  == G(NextFiles \/ NextProofs \/ NextProv \/ NextForms \/ BlockMC)
NextColl    == G(NextProv \/ NextPrice)
NextAll     == G(NextFiles \/ NextProofs \/ NextProv \/ NextForms \/ NextPrice \/ BlockMC)

View == <<vars, ghosts>>
AV == <<vars, ghosts, last>>
PC01a == [][C01_NoEffect]_AV
PC01b == [][C01_Paid]_AV
PC02a == [][C02_HonestAccepted]_AV
PC02b == [][C02_HonestKept]_AV
PC03  == [][C03_Reward]_AV
PC14a == [][C14_Quorum]_AV
PC14b == [][C14_FormShape]_AV
PC15  == [][C15_Step]_AV
=============================================================================

CONSTANTS
  Denoms = {"ujkl", "uusd"}
  MintDenom = "ujkl"
  MaxAmt = 1
  FIX = {"refund", "passfee", "fullmint"}
  Start = 3
  E0 = 1
  MaxSupply = 5
INIT Init
NEXT Next
VIEW View
CONSTRAINT Solvent
INVARIANTS Conserved LG_RnsBacked LG_CollBacked LG_NonNeg
PROPERTY PStep
CHECK_DEADLOCK FALSE

------------------------------- MODULE MCOwn -------------------------------
EXTENDS Own
CONSTANTS Vals, Names, Merkles, MAXH,
          Parts   \* which resource groups take steps: subset of {"prov", "feeds", "files", "notif"} (keeps the quick runs small)
Init == /\ providers = <<>> /\ feeds = <<>> /\ primary = <<>> /\ blocks = {} /\ files = {} /\ inbox = {} /\ height = 1
        /\ last = [a |-> "init", s |-> "none", ok |-> TRUE]
P(x) == x \in Parts
Next == \/ P("prov") /\ \E s \in Acc, v \in Vals : InitProvider(s, v) \/ SetField(s, "ip", v) \/ SetField(s, "keybase", v)
        \/ P("prov") /\ \E s \in Acc : Shutdown(s)
        \/ P("prov") /\ \E s \in Acc, c \in Acc : AddClaimer(s, c) \/ RmClaimer(s, c)
        \/ P("notif") /\ \E s \in Acc, c \in Acc : BlockSender(s, c) \/ Notify(s, c) \/ DelNotif(s, c)
        \/ P("feeds") /\ \E s \in Acc, n \in Names : CreateFeed(s, n) \/ MakePrimary(s, n) \/ \E d \in Vals : UpdateFeed(s, n, d)
        \/ P("files") /\ \E s \in Acc, m \in Merkles : PostFile(s, m) \/ \E st \in 1..MAXH : DeleteFile(s, m, st)
        \/ P("files") /\ \E s \in Acc, c \in Acc, m \in Merkles : ContractPost(s, c, m)
        \/ (height < MAXH /\ Tick)
View == vars
PC11 == [][C11_Own]_<<vars, last>>
=============================================================================

------------------------------- MODULE MCOwn -------------------------------
EXTENDS Own
CONSTANTS Vals, Names, Merkles, MAXH
Init == /\ providers = <<>> /\ feeds = <<>> /\ primary = <<>> /\ blocks = {} /\ files = {} /\ height = 1
        /\ last = [a |-> "init", s |-> "none", ok |-> TRUE]
Next == \/ \E s \in Acc, v \in Vals : InitProvider(s, v) \/ SetField(s, "ip", v) \/ SetField(s, "keybase", v)
        \/ \E s \in Acc : Shutdown(s)
        \/ \E s \in Acc, c \in Acc : AddClaimer(s, c) \/ RmClaimer(s, c) \/ BlockSender(s, c)
        \/ \E s \in Acc, n \in Names : CreateFeed(s, n) \/ MakePrimary(s, n) \/ \E d \in Vals : UpdateFeed(s, n, d)
        \/ \E s \in Acc, m \in Merkles : PostFile(s, m) \/ \E st \in 1..MAXH : DeleteFile(s, m, st)
        \/ \E s \in Acc, c \in Acc, m \in Merkles : ContractPost(s, c, m)
        \/ (height < MAXH /\ Tick)
View == vars
PC11 == [][C11_Own]_<<vars, last>>
=============================================================================

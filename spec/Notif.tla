------------------------------- MODULE Notif -------------------------------
(* Notifications (x/notifications): create / delete / block-senders, inbox listing.         *)
(* The code keeps notifications ("to/from/time") and block entries ("owner/blocked") under   *)
(* ONE store prefix; the inbox listing iterates the prefix "addr/". Two named deviations of  *)
(* the pinned code follow from that layout (both recorded as known findings, not repaired):  *)
(*   "blockentry": a block entry is listed as a notification {from = blocked, time = 0}      *)
(*   "overwrite" : a second create with the same (to, from, block time) replaces the first   *)
(* Property decided here: C18.                                                               *)
EXTENDS Integers, Sequences, FiniteSets, TLC
CONSTANTS Acc, Targets,
          FIX     \* repaired deviations: subset of {"blockentry", "overwrite"}
VARIABLES inbox,    \* acct -> set of [from, time, c]   (what the inbox query lists)
          blocks,   \* set of <<owner, blocked>>
          names,    \* name -> acct (name service resolution)
          time,
          sent, deleted,   \* ghosts: every notification successfully sent / deleted by its recipient
          gblocks,         \* ghost: every (owner, blocked) pair of a successful block-senders message
          last
vars == <<inbox, blocks, names, time>>
ghosts == <<sent, deleted, gblocks>>
Fixed(x) == x \in FIX
Resolve(t) == IF t \in Acc THEN t ELSE IF t \in DOMAIN names THEN names[t] ELSE "none"
Fail(lbl) == UNCHANGED vars /\ last' = [lbl EXCEPT !.ok = FALSE]

Create(s, to, c) ==
  LET lbl == [a |-> "create", s |-> s, to |-> to, c |-> c, ok |-> TRUE]
      r == Resolve(to)
      e == [from |-> s, time |-> time, c |-> c] IN
  IF r = "none" \/ <<r, s>> \in blocks THEN Fail(lbl)
  ELSE /\ inbox' = [inbox EXCEPT ![r] = (IF Fixed("overwrite") THEN @ ELSE {x \in @ : ~(x.from = s /\ x.time = time)}) \cup {e}]
       /\ UNCHANGED <<blocks, names, time>> /\ last' = lbl
\* never fails; removes the entry (creator, from, time) from the creator's own inbox
Delete(s, from, t) ==
  /\ inbox' = [inbox EXCEPT ![s] = {x \in @ : ~(x.from = from /\ x.time = t /\ t # 0)}]   \* no notification has time 0; a listed block entry is not deletable
  /\ UNCHANGED <<blocks, names, time>>
  /\ last' = [a |-> "delete", s |-> s, from |-> from, t |-> t, ok |-> TRUE]
\* targets: sequence of addresses / names; fails as a whole if one does not resolve
Block(s, targets) ==
  LET lbl == [a |-> "block", s |-> s, targets |-> targets, ok |-> TRUE]
      rs == {Resolve(targets[i]) : i \in DOMAIN targets} IN
  IF "none" \in rs THEN Fail(lbl)
  ELSE /\ blocks' = blocks \cup {<<s, r>> : r \in rs}
       /\ inbox' = IF Fixed("blockentry") THEN inbox
                   ELSE [inbox EXCEPT ![s] = @ \cup {[from |-> r, time |-> 0, c |-> ""] : r \in rs}]
       /\ UNCHANGED <<names, time>> /\ last' = lbl
Repoint(n, a) ==
  /\ names' = [x \in (DOMAIN names) \cup {n} |-> IF x = n THEN a ELSE names[x]]
  /\ UNCHANGED <<inbox, blocks, time>> /\ last' = [a |-> "repoint", n |-> n, to |-> a, ok |-> TRUE]
Tick == /\ time' = time + 1 /\ UNCHANGED <<inbox, blocks, names>> /\ last' = [a |-> "tick", ok |-> TRUE]

GhostNext ==
  LET l == last' IN
  /\ sent' = IF l.a = "create" /\ l.ok
             THEN sent \cup {[to |-> Resolve(l.to), from |-> l.s, time |-> time, c |-> l.c, n |-> Cardinality(sent)]} ELSE sent
  /\ gblocks' = IF l.a = "block" /\ l.ok
                THEN gblocks \cup {<<l.s, Resolve(l.targets[i])>> : i \in DOMAIN l.targets} ELSE gblocks
  /\ deleted' = IF l.a = "delete"
                THEN deleted \cup {x \in sent : x.to = l.s /\ x.from = l.from /\ x.time = l.t} ELSE deleted

---------------------------------------------------------------------------
(* C18 *)
Expected(a, S, Dl) == {[from |-> x.from, time |-> x.time, c |-> x.c] : x \in {y \in S \ Dl : y.to = a}}
Phantoms(a, ib, S, Dl) == ib[a] \ Expected(a, S, Dl)
BlockPhantoms(a, ib, bl, S, Dl) == {e \in Phantoms(a, ib, S, Dl) : e.time = 0 /\ <<a, e.from>> \in bl}
Lost(a, ib, S, Dl) == Expected(a, S, Dl) \ ib[a]
OverLost(a, ib, S, Dl) == {e \in Lost(a, ib, S, Dl) : \E e2 \in ib[a] : e2.from = e.from /\ e2.time = e.time}
\* state predicates (primed copies are evaluated on the post-state in trace validation)
NoBlockPhantom(ib, bl, S, Dl) == \A a \in DOMAIN ib : BlockPhantoms(a, ib, bl, S, Dl) = {}
NoOtherPhantom(ib, bl, S, Dl) == \A a \in DOMAIN ib : Phantoms(a, ib, S, Dl) \ BlockPhantoms(a, ib, bl, S, Dl) = {}
NoOverLost(ib, S, Dl)  == \A a \in DOMAIN ib : OverLost(a, ib, S, Dl) = {}
NoOtherLost(ib, S, Dl) == \A a \in DOMAIN ib : Lost(a, ib, S, Dl) \ OverLost(a, ib, S, Dl) = {}
C18_KF_BlockEntry == NoBlockPhantom(inbox, blocks, sent, deleted)
C18_NoPhantom     == NoOtherPhantom(inbox, blocks, sent, deleted)
C18_KF_Overwrite  == NoOverLost(inbox, sent, deleted)
C18_NoLoss        == NoOtherLost(inbox, sent, deleted)
C18_Step ==
  LET l == last' IN
  /\ (l.a = "create") =>
        /\ (Resolve(l.to) = "none" \/ <<Resolve(l.to), l.s>> \in blocks \/ <<Resolve(l.to), l.s>> \in gblocks) => ~l.ok
        /\ ~l.ok => inbox' = inbox
        /\ \A a \in DOMAIN inbox : a # Resolve(l.to) => inbox'[a] = inbox[a]
  /\ (l.a = "delete") => \A a \in DOMAIN inbox : a # l.s => inbox'[a] = inbox[a]
  /\ (l.a \in {"repoint", "tick"}) => inbox' = inbox
\* a successful block-senders message is on record for every target, and the record stays
C18_BlockRecorded == gblocks' \subseteq blocks'
\* a block-senders message makes no entry appear in any inbox (other than the known finding, reported separately)
C18_BlockSilent ==
  (last'.a = "block") => \A a \in DOMAIN inbox :
      inbox'[a] \ inbox[a] \subseteq {e \in inbox'[a] : e.time = 0 /\ a = last'.s /\ <<a, e.from>> \in blocks'}
=============================================================================

-------------------------------- MODULE SD --------------------------------
(* Storage deals (x/storage): files, prover lists, proof records, providers and     *)
(* collateral, attestation / report forms, reward blocks.                            *)
(* One action per handler (x/storage/keeper/msg_server_*.go) and one for the block   *)
(* boundary (x/storage/abci.go -> keeper/rewards.go).                                *)
(* Properties decided here: C01, C02, C03, C14, C15, C17.                            *)
EXTENDS Integers, Sequences, SequencesExt, FiniteSets, FiniteSetsExt, TLC

CONSTANTS Owners, Provers, Merkles, Reps, Rels, Doms, MAXH,
          FIX   \* repaired deviations: subset of {"addprover", "walk", "repost"}

VARIABLES files, filesO,   \* by-merkle and by-owner index: fid -> file record
          proofs,          \* <<prover, fid>> -> [last, chunk]
          providers,       \* acct -> [burned, dom]
          collat,          \* acct -> amount
          attest, report,  \* <<prover, fid>> -> [names, done]
          bal, bal2, height, par,   \* bal2: balances in a second denomination (gauges funded at genesis may hold any coin)
          earned, ever, signers, missed, pwin,   \* ghosts (history), see GhostNext
          last
vars   == <<files, filesO, proofs, providers, collat, attest, report, bal, bal2, height, par>>
ghosts == <<earned, ever, signers, missed, pwin>>

MODS == "m:storage"
MODC == "m:storage_collateral_name"
GAUGES == "gauges"
Fixed(x) == x \in FIX

Put(f, k, v) == [x \in (DOMAIN f) \cup {k} |-> IF x = k THEN v ELSE f[x]]
Del(f, k)    == [x \in (DOMAIN f) \ {k} |-> f[x]]
DelAll(f, K) == [x \in (DOMAIN f) \ K |-> f[x]]
InSeq(x, q)  == \E i \in DOMAIN q : q[i] = x
Without(q, x) == SelectSeq(q, LAMBDA e : e # x)
SumOver(S, F(_)) == FoldSet(LAMBDA x, acc : acc + F(x), 0, S)
Abs(x) == IF x < 0 THEN -x ELSE x

\* ---- x/storage/types/file.go ----
Young(f, h)    == f.start + f.interval >= h
Rounded(f, h)  == LET k == h - f.start IN k - (k % f.interval) + f.start
ProvenLast(f, h, lp) == lp >= Rounded(f, h) - f.interval
WinIdx(f, h)   == (h - f.start) \div f.interval
\* number of chunks of a file, and the range the chain draws challenges from (file_deal.go ResetChunk)
NChunks(sz, cs) == (sz + cs - 1) \div cs
Pieces(sz, cs)  == IF sz % cs = 0 THEN sz \div cs - 1 ELSE sz \div cs
ChalRange(sz, cs) == IF Pieces(sz, cs) > 0 THEN 0 .. (Pieces(sz, cs) - 1) ELSE {0}

Listed(fid)   == IF fid \in DOMAIN files THEN ToSet(files[fid].proofs) ELSE {}
HasRec(p, fid) == <<p, fid>> \in DOMAIN proofs
HasAnyProof(q) == \E k \in DOMAIN proofs : k[1] = q

Fail(lbl) == UNCHANGED vars /\ last' = [lbl EXCEPT !.ok = FALSE]

---------------------------------------------------------------------------
(* PostFile (plan-paid; the owner's plan is large): msg_server_post_file.go.          *)
(* deviation "repost": the pinned code overwrites an existing file with the same key  *)
(* (same merkle, owner and block) without removing its proof records.                 *)
PostFile(o, m, sz, mp) ==
  LET lbl == [a |-> "postfile", s |-> o, m |-> m, sz |-> sz, mp |-> mp, ok |-> TRUE]
      fid == <<m, o, height>>
      rec == [size |-> sz, maxp |-> mp, start |-> height, interval |-> par.I, proofs |-> <<>>]
      old == IF Fixed("repost") THEN {<<p, fid>> : p \in Listed(fid)} ELSE {}
  IN /\ files' = Put(files, fid, rec) /\ filesO' = Put(filesO, fid, rec)
     /\ proofs' = DelAll(proofs, old)
     /\ UNCHANGED <<providers, collat, attest, report, bal, bal2, height, par>> /\ last' = lbl

(* DeleteFile: msg_server_file_delete.go (never fails) *)
DeleteFile(s, m, st) ==
  LET lbl == [a |-> "deletefile", s |-> s, m |-> m, st |-> st, ok |-> TRUE]
      fid == <<m, s, st>>
  IN IF fid \notin DOMAIN files THEN UNCHANGED vars /\ last' = lbl
     ELSE /\ files' = Del(files, fid) /\ filesO' = Del(filesO, fid)
          /\ proofs' = DelAll(proofs, {<<p, fid>> : p \in Listed(fid)})
          /\ UNCHANGED <<providers, collat, attest, report, bal, bal2, height, par>> /\ last' = lbl

(* PostProof: msg_server_postproof.go. claim/c are ground truth about the payload:     *)
(* claim = "valid" iff the payload is a Merkle proof of chunk c under this file's root. *)
(* nc = the next challenge the chain draws on acceptance.                               *)
(* deviation "addprover": the pinned code registers a new prover before verifying and   *)
(* commits that although it reports failure.                                            *)
GoodProof(p, fid, toProve, c, claim) ==
  /\ fid \in DOMAIN files /\ claim = "valid" /\ toProve = c
  /\ IF p \in Listed(fid) THEN HasRec(p, fid) /\ proofs[<<p, fid>>].chunk = c
     ELSE Len(files[fid].proofs) < files[fid].maxp /\ c = 0
PostProof(p, fid, toProve, c, claim, nc) ==
  LET lbl == [a |-> "postproof", s |-> p, f |-> fid, toProve |-> toProve, c |-> c, claim |-> claim, ok |-> TRUE]
      f == files[fid]
      listed == p \in Listed(fid)
      addp == /\ files' = [files EXCEPT ![fid].proofs = Append(@, p)]
              /\ filesO' = [filesO EXCEPT ![fid].proofs = Append(@, p)]
  IN IF fid \notin DOMAIN files THEN Fail(lbl)
     ELSE IF listed /\ ~HasRec(p, fid) THEN Fail(lbl)
     ELSE IF ~listed /\ Len(f.proofs) >= f.maxp THEN Fail(lbl)
     ELSE IF GoodProof(p, fid, toProve, c, claim)
          THEN /\ nc \in ChalRange(f.size, par.cs)
               /\ IF listed THEN UNCHANGED <<files, filesO>> ELSE addp
               /\ proofs' = Put(proofs, <<p, fid>>, [last |-> height, chunk |-> nc])
               /\ UNCHANGED <<providers, collat, attest, report, bal, bal2, height, par>> /\ last' = lbl
          ELSE IF ~listed /\ ~Fixed("addprover")
               THEN /\ addp
                    /\ proofs' = Put(proofs, <<p, fid>>, [last |-> height, chunk |-> 0])
                    /\ UNCHANGED <<providers, collat, attest, report, bal, bal2, height, par>>
                    /\ last' = [lbl EXCEPT !.ok = FALSE]
               ELSE Fail(lbl)

(* InitProvider / ShutdownProvider / SetProviderIP: msg_server_init_provider.go etc. *)
InitProvider(p, dom) ==
  LET lbl == [a |-> "initprovider", s |-> p, dom |-> dom, ok |-> TRUE] IN
  IF p \in DOMAIN providers \/ bal[p] < par.price THEN Fail(lbl)
  ELSE /\ providers' = Put(providers, p, [burned |-> 0, dom |-> dom])
       /\ collat' = Put(collat, p, par.price)
       /\ bal' = [bal EXCEPT ![p] = @ - par.price, ![MODC] = @ + par.price] /\ UNCHANGED bal2
       /\ UNCHANGED <<files, filesO, proofs, attest, report, height, par>> /\ last' = lbl
Shutdown(p) ==
  LET lbl == [a |-> "shutdown", s |-> p, ok |-> TRUE]
      amt == IF p \in DOMAIN collat THEN collat[p] ELSE 0 IN
  IF p \notin DOMAIN providers \/ bal[MODC] < amt THEN Fail(lbl)
  ELSE /\ providers' = Del(providers, p)
       /\ collat' = Del(collat, p)
       /\ bal' = [bal EXCEPT ![p] = @ + amt, ![MODC] = @ - amt] /\ UNCHANGED bal2
       /\ UNCHANGED <<files, filesO, proofs, attest, report, height, par>> /\ last' = lbl
SetIP(p, dom) ==
  LET lbl == [a |-> "setip", s |-> p, dom |-> dom, ok |-> TRUE] IN
  IF p \notin DOMAIN providers THEN Fail(lbl)
  ELSE /\ providers' = [providers EXCEPT ![p].dom = dom]
       /\ UNCHANGED <<files, filesO, proofs, collat, attest, report, bal, bal2, height, par>> /\ last' = lbl
\* governance changes the collateral price (params keeper)
SetPrice(x) ==
  /\ par' = [par EXCEPT !.price = x]
  /\ UNCHANGED <<files, filesO, proofs, providers, collat, attest, report, bal, bal2, height>>
  /\ last' = [a |-> "setprice", v |-> x, ok |-> TRUE]

(* forms: msg_server_attest.go, msg_server_report.go, providers.go GetActiveProviders *)
Eligible(p) == LET pd == IF p \in DOMAIN providers THEN providers[p].dom ELSE "" IN
               {q \in DOMAIN providers : HasAnyProof(q) /\ providers[q].dom # "" /\ providers[q].dom # pd}
FormNamesOK(p, names) ==
  /\ Len(names) = par.fs /\ ToSet(names) \subseteq Eligible(p) /\ Cardinality(ToSet(names)) = Len(names)
ReqAttest(p, fid, names) ==
  LET lbl == [a |-> "reqattest", s |-> p, f |-> fid, names |-> names, ok |-> TRUE] IN
  IF fid \notin DOMAIN files \/ p \notin Listed(fid) \/ ~HasRec(p, fid) \/ <<p, fid>> \in DOMAIN attest
     \/ p \notin DOMAIN providers THEN Fail([lbl EXCEPT !.names = <<>>])
  ELSE IF Cardinality(Eligible(p)) < par.fs THEN Fail([lbl EXCEPT !.names = <<>>])
  ELSE /\ FormNamesOK(p, names)
       /\ attest' = Put(attest, <<p, fid>>, [names |-> names, done |-> {}])
       /\ UNCHANGED <<files, filesO, proofs, providers, collat, report, bal, bal2, height, par>> /\ last' = lbl
\* the handler swallows every error: ok is always TRUE
Attest(s, p, fid) ==
  LET lbl == [a |-> "attest", s |-> s, p |-> p, f |-> fid, ok |-> TRUE]
      k == <<p, fid>>
      noop == UNCHANGED vars /\ last' = lbl
  IN IF k \notin DOMAIN attest THEN noop
     ELSE IF ~InSeq(s, attest[k].names) THEN noop
     ELSE LET done2 == attest[k].done \cup {s} IN
          IF Cardinality(done2) < par.min
          THEN /\ attest' = [attest EXCEPT ![k].done = done2]
               /\ UNCHANGED <<files, filesO, proofs, providers, collat, report, bal, bal2, height, par>> /\ last' = lbl
          ELSE IF fid \notin DOMAIN files \/ p \notin Listed(fid) \/ ~HasRec(p, fid) THEN noop
          ELSE /\ proofs' = [proofs EXCEPT ![k].last = height]
               /\ attest' = Del(attest, k)
               /\ UNCHANGED <<files, filesO, providers, collat, report, bal, bal2, height, par>> /\ last' = lbl
ReqReport(s, p, fid, names) ==
  LET lbl == [a |-> "reqreport", s |-> s, p |-> p, f |-> fid, names |-> names, ok |-> TRUE] IN
  IF fid \notin DOMAIN files \/ <<p, fid>> \in DOMAIN report \/ p \notin Listed(fid) \/ ~HasRec(p, fid)
     \/ p \notin DOMAIN providers THEN Fail([lbl EXCEPT !.names = <<>>])
  ELSE IF Cardinality(Eligible(p)) < par.fs THEN Fail([lbl EXCEPT !.names = <<>>])
  ELSE /\ FormNamesOK(p, names)
       /\ report' = Put(report, <<p, fid>>, [names |-> names, done |-> {}])
       /\ UNCHANGED <<files, filesO, proofs, providers, collat, attest, bal, bal2, height, par>> /\ last' = lbl
Report(s, p, fid) ==
  LET lbl == [a |-> "report", s |-> s, p |-> p, f |-> fid, ok |-> TRUE]
      k == <<p, fid>>
  IN IF k \notin DOMAIN report THEN Fail(lbl)
     ELSE IF ~InSeq(s, report[k].names) THEN Fail(lbl)
     ELSE LET done2 == report[k].done \cup {s} IN
          IF Cardinality(done2) < par.min
          THEN /\ report' = [report EXCEPT ![k].done = done2]
               /\ UNCHANGED <<files, filesO, proofs, providers, collat, attest, bal, bal2, height, par>> /\ last' = lbl
          ELSE IF fid \notin DOMAIN files THEN Fail(lbl)
          ELSE /\ report' = Del(report, k)
               /\ files' = [files EXCEPT ![fid].proofs = Without(@, p)]
               /\ filesO' = [filesO EXCEPT ![fid].proofs = Without(@, p)]
               /\ proofs' = IF p \in Listed(fid) THEN Del(proofs, k) ELSE proofs
               /\ UNCHANGED <<providers, collat, attest, bal, bal2, height, par>> /\ last' = lbl

---------------------------------------------------------------------------
(* Reward block: keeper/rewards.go ManageRewards at the new height h.                 *)
Met(p, fid, h) == LET f == files[fid] IN
  Young(f, h) \/ (HasRec(p, fid) /\ ProvenLast(f, h, proofs[<<p, fid>>].last))
\* repaired semantics: the prover list is walked as a snapshot
KeepF(fid, h)    == SelectSeq(files[fid].proofs, LAMBDA p : Met(p, fid, h))
DropF(fid, h)    == {p \in Listed(fid) : ~Met(p, fid, h)}
BurnF(fid, h)    == {p \in Listed(fid) : ~Met(p, fid, h) /\ HasRec(p, fid)}
CountF(fid, h)   == [p \in Listed(fid) |-> IF Met(p, fid, h) THEN 1 ELSE 0]
\* deviation "walk": the pinned code ranges over the array that RemoveProverWithKey shifts in
\* place (file_deal.go: append(front, back...) while the caller's range holds the old header)
RECURSIVE Walk(_, _, _, _, _, _, _)
Walk(fid, h, i, n0, arr, len, acc) ==
  IF i > n0 THEN [arr |-> SubSeq(arr, 1, len), cnt |-> acc.cnt, drop |-> acc.drop, burn |-> acc.burn]
  ELSE LET key == arr[i]
           f == files[fid]
           found == key \notin acc.drop /\ HasRec(key, fid)
           young == Young(f, h)
           proven == found /\ ProvenLast(f, h, proofs[<<key, fid>>].last)
           pos == {j \in 1..len : arr[j] = key}
           shifted == IF pos = {} THEN arr
                      ELSE LET j == CHOOSE j \in pos : \A k \in pos : j <= k IN
                           [k \in 1..n0 |-> IF k >= j /\ k < len THEN arr[k + 1] ELSE arr[k]]
           len2 == IF pos = {} THEN len ELSE len - 1
       IN IF ~young /\ ~found THEN Walk(fid, h, i + 1, n0, shifted, len2, [acc EXCEPT !.drop = @ \cup {key}])
          ELSE IF ~proven /\ ~young
               THEN Walk(fid, h, i + 1, n0, shifted, len2, [acc EXCEPT !.drop = @ \cup {key}, !.burn = @ \cup {key}])
               ELSE Walk(fid, h, i + 1, n0, arr, len, [acc EXCEPT !.cnt[key] = @ + 1])
WalkP(fid, h) == LET n0 == Len(files[fid].proofs) IN
  Walk(fid, h, 1, n0, files[fid].proofs, n0, [cnt |-> [p \in Listed(fid) |-> 0], drop |-> {}, burn |-> {}])
Keep(fid, h)  == IF Fixed("walk") THEN KeepF(fid, h) ELSE WalkP(fid, h).arr
Drop(fid, h)  == IF Fixed("walk") THEN DropF(fid, h) ELSE WalkP(fid, h).drop
Burn(fid, h)  == IF Fixed("walk") THEN BurnF(fid, h) ELSE WalkP(fid, h).burn
Count(fid, h) == IF Fixed("walk") THEN CountF(fid, h) ELSE WalkP(fid, h).cnt

TotalListed == SumOver(DOMAIN files, LAMBDA fid : files[fid].size * Len(files[fid].proofs))
Credit(p, h) == SumOver({fid \in DOMAIN files : p \in Listed(fid)}, LAMBDA fid : files[fid].size * Count(fid, h)[p])
AllListed == UNION {Listed(fid) : fid \in DOMAIN files}
Share(R, cr, T) == IF T > 0 THEN (R * cr) \div T ELSE 0

\* pay / pay2 = amounts received by the provers in this block in the two denominations
\* (trace: observed; model checking: exact floor). R / R2 = amounts released from the gauges.
PayOK(R, pay, h) ==
  LET T == TotalListed
      paid == SumOver(DOMAIN pay, LAMBDA p : pay[p]) IN
  /\ \A p \in DOMAIN pay :
        /\ pay[p] >= 0
        /\ (p \notin AllListed \/ Credit(p, h) = 0) => pay[p] = 0
        /\ p \in AllListed => Abs(pay[p] - Share(R, Credit(p, h), T)) <= 1
  /\ paid <= R
NewBal(b, R, pay) ==
  LET paid == SumOver(DOMAIN pay, LAMBDA p : pay[p]) IN
  [a \in DOMAIN b |-> IF a = GAUGES THEN b[a] - R
                      ELSE IF a = MODS THEN b[a] + R - paid
                      ELSE IF a \in DOMAIN pay THEN b[a] + pay[a] ELSE b[a]]
Reward(h, R, pay, R2, pay2) ==
  LET gone == {fid \in DOMAIN files : Len(files[fid].proofs) = 0 /\ ~Young(files[fid], h)}
  IN /\ PayOK(R, pay, h) /\ PayOK(R2, pay2, h)
     /\ files' = [fid \in (DOMAIN files) \ gone |-> [files[fid] EXCEPT !.proofs = Keep(fid, h)]]
     /\ filesO' = [fid \in (DOMAIN filesO) \ gone |->
                    IF fid \in DOMAIN files THEN [filesO[fid] EXCEPT !.proofs = Keep(fid, h)] ELSE filesO[fid]]
     /\ proofs' = DelAll(proofs, UNION {{<<p, fid>> : p \in Drop(fid, h)} : fid \in DOMAIN files})
     /\ providers' = [p \in DOMAIN providers |->
                        [providers[p] EXCEPT !.burned = @ + Cardinality({fid \in DOMAIN files : p \in Burn(fid, h)})]]
     /\ bal' = NewBal(bal, R, pay) /\ bal2' = NewBal(bal2, R2, pay2)
Block(R, pay, R2, pay2) ==
  /\ height < MAXH /\ height' = height + 1
  /\ IF (height + 1) % par.C = 0
     THEN /\ R <= bal[GAUGES] /\ R2 <= bal2[GAUGES] /\ Reward(height + 1, R, pay, R2, pay2)
          /\ UNCHANGED <<collat, attest, report, par>>
     ELSE /\ R = 0 /\ R2 = 0 /\ (\A p \in DOMAIN pay : pay[p] = 0) /\ (\A q \in DOMAIN pay2 : pay2[q] = 0)
          /\ UNCHANGED <<files, filesO, proofs, providers, collat, attest, report, bal, bal2, par>>
  /\ last' = [a |-> "block", rel |-> R, rel2 |-> R2, reward |-> ((height + 1) % par.C = 0), ok |-> TRUE]

---------------------------------------------------------------------------
(* Ghost (history) variables, functions of (vars, last', vars').                      *)
ListedIn(F, x) == x[2] \in DOMAIN F /\ InSeq(x[1], F[x[2]].proofs)
PairsOf(F) == UNION {{<<p, fid>> : p \in ToSet(F[fid].proofs)} : fid \in DOMAIN F}
LGood == last'.a = "postproof" /\ GoodProof(last'.s, last'.f, last'.toProve, last'.c, last'.claim)
GhostNext ==
  LET l == last'
      new == IF LGood THEN {<<l.s, l.f>>} ELSE {}
      e2 == {x \in earned \cup new : ListedIn(files', x)}
      crossed(x) == l.a = "block" /\ x[2] \in DOMAIN files
                    /\ WinIdx(files[x[2]], height') > WinIdx(files[x[2]], height)
      formKey == IF l.a \in {"attest", "reqattest"} THEN <<"attest", (IF l.a = "attest" THEN l.p ELSE l.s), l.f>>
                 ELSE IF l.a \in {"report", "reqreport"} THEN <<"report", l.p, l.f>> ELSE <<>>
  IN /\ earned' = e2
     /\ ever' = ever \cup {x[1] : x \in e2}
     /\ pwin' = [x \in PairsOf(files') |->
                   IF LGood /\ l.ok /\ x = <<l.s, l.f>> THEN WinIdx(files[l.f], height)
                   ELSE IF x \in DOMAIN pwin THEN pwin[x] ELSE -1]
     /\ missed' = {x \in PairsOf(files) \cup PairsOf(files') :
                     x \in missed \/ (x \in DOMAIN pwin /\ crossed(x) /\ pwin[x] < WinIdx(files[x[2]], height))}
     /\ signers' = IF l.a \in {"reqattest", "reqreport"} /\ l.ok THEN Put(signers, formKey, {})
                   ELSE IF l.a \in {"attest", "report"} /\ formKey \in DOMAIN signers
                        THEN [signers EXCEPT ![formKey] = @ \cup {l.s}]
                        ELSE signers

---------------------------------------------------------------------------
(* Properties *)
Delta(a) == bal'[a] - bal[a]
Delta2(a) == bal2'[a] - bal2[a]
Users == (DOMAIN bal) \ {MODS, MODC, GAUGES, "other"}

\* C17 (state)
C17_Indexes == files = filesO
C17_Lists == \A fid \in DOMAIN files :
               /\ Len(files[fid].proofs) <= files[fid].maxp
               /\ Cardinality(ToSet(files[fid].proofs)) = Len(files[fid].proofs)
               /\ \A p \in ToSet(files[fid].proofs) : HasRec(p, fid)

\* C01
C01_Listed == \A fid \in DOMAIN files : \A p \in ToSet(files[fid].proofs) : <<p, fid>> \in earned
C01_NoEffect ==
  LET l == last' IN
  (l.a = "postproof" /\ ~LGood) =>
     /\ \A fid \in (DOMAIN files) \cup (DOMAIN files') :
          (fid \in DOMAIN files /\ l.s \in ToSet(files[fid].proofs)) <=> (fid \in DOMAIN files' /\ l.s \in ToSet(files'[fid].proofs))
     /\ \A k \in (DOMAIN proofs) \cup (DOMAIN proofs') :
          k[1] = l.s => (k \in DOMAIN proofs /\ k \in DOMAIN proofs' /\ proofs'[k] = proofs[k])
     /\ Delta(l.s) = 0 /\ Delta2(l.s) = 0
C01_Paid == (last'.a = "block") =>
  \A p \in Users : (Delta(p) > 0 \/ Delta2(p) > 0) => p \in ever

\* C02
C02_ChallengeInRange ==
  \A k \in DOMAIN proofs : k[2] \in DOMAIN files =>
     (proofs[k].chunk >= 0 /\ proofs[k].chunk < NChunks(files[k[2]].size, par.cs))
C02_HonestAccepted == (last'.a = "postproof" /\ LGood) => last'.ok
C02_HonestKept ==
  (last'.a = "block" /\ last'.reward) =>
     /\ \A x \in PairsOf(files) : x \notin missed' => ListedIn(files', x)
     /\ \A p \in DOMAIN providers :
          p \in DOMAIN providers' /\
          providers'[p].burned - providers[p].burned <= Cardinality({x \in PairsOf(files) : x[1] = p /\ x \in missed'})

\* C03
\* D = observed balance change per account, R = amount released, cr = size credited per prover
PaidRight(D(_), R, cr(_), Tl, Tc) ==
  /\ \A p \in Users : (p \notin AllListed \/ cr(p) = 0) => D(p) = 0
  /\ SumOver(Users, LAMBDA p : D(p)) <= R
  /\ \A p \in Users \cap AllListed : cr(p) > 0 =>
       /\ D(p) >= Share(R, cr(p), Tl) - 1
       /\ D(p) <= (IF Tc > 0 THEN (R * cr(p) + Tc - 1) \div Tc ELSE 0) + 1
  /\ \A p, q \in Users \cap AllListed : (cr(p) > 0 /\ cr(p) = cr(q)) => Abs(D(p) - D(q)) <= 1
C03_Reward ==
  (last'.a = "block" /\ last'.reward) =>
    LET h == height'
        R == last'.rel
        met(p, fid) == Met(p, fid, h)
        cr(p) == SumOver({fid \in DOMAIN files : p \in Listed(fid) /\ met(p, fid)}, LAMBDA fid : files[fid].size)
        Tl == TotalListed
        Tc == SumOver(AllListed, LAMBDA p : cr(p))
    IN /\ \A fid \in DOMAIN files :
            IF fid \in DOMAIN files'
            THEN files'[fid].proofs = SelectSeq(files[fid].proofs, LAMBDA p : met(p, fid))
            ELSE Len(files[fid].proofs) = 0
       /\ \A p \in DOMAIN providers :
            p \in DOMAIN providers' /\
            providers'[p].burned = providers[p].burned + Cardinality({fid \in DOMAIN files : p \in Listed(fid) /\ ~met(p, fid)})
       /\ PaidRight(Delta, R, cr, Tl, Tc)
       /\ PaidRight(Delta2, last'.rel2, cr, Tl, Tc)

\* C14
Quorum(kind, p, fid, form) ==
  LET k == <<kind, p, fid>> IN
  k \in DOMAIN signers' /\ Cardinality(signers'[k] \cap ToSet(form.names)) >= par.min
C14_Quorum ==
  LET l == last' IN
  /\ (l.a = "attest") =>
       LET k == <<l.p, l.f>> IN
       /\ (k \in DOMAIN proofs /\ k \in DOMAIN proofs' /\ proofs'[k].last # proofs[k].last) =>
             (k \in DOMAIN attest /\ Quorum("attest", l.p, l.f, attest[k]) /\ k \notin DOMAIN attest')
       /\ (k \notin DOMAIN attest \/ ~InSeq(l.s, attest[k].names) \/ l.s \in attest[k].done) =>
             (proofs' = proofs /\ files' = files /\ attest' = attest)
       /\ report' = report /\ providers' = providers /\ bal' = bal
       \* a sign-off touches only the proof record of the prover the form concerns (never the signer's or anybody else's)
       /\ \A k2 \in DOMAIN proofs : k2 # k => (k2 \in DOMAIN proofs' /\ proofs'[k2] = proofs[k2])
  /\ (l.a = "report") =>
       LET k == <<l.p, l.f>> IN
       /\ (files' # files \/ proofs' # proofs) =>
             (k \in DOMAIN report /\ Quorum("report", l.p, l.f, report[k]) /\ k \notin DOMAIN report')
       /\ (k \notin DOMAIN report \/ ~InSeq(l.s, report[k].names) \/ l.s \in report[k].done) =>
             (proofs' = proofs /\ files' = files /\ report' = report)
       /\ \A fid \in DOMAIN files : fid # l.f => (fid \in DOMAIN files' /\ files'[fid] = files[fid])
       /\ attest' = attest /\ providers' = providers /\ bal' = bal
C14_FormShape ==
  LET l == last' IN
  (l.a \in {"reqattest", "reqreport"} /\ l.ok) =>
     LET p == IF l.a = "reqattest" THEN l.s ELSE l.p
         k == <<p, l.f>>
         F == IF l.a = "reqattest" THEN attest' ELSE report' IN
     /\ k \in DOMAIN F
     /\ Len(F[k].names) = par.fs
     /\ Cardinality(ToSet(F[k].names)) = Len(F[k].names)
     /\ p \notin ToSet(F[k].names)
     /\ \A q \in ToSet(F[k].names) : q \in DOMAIN providers /\ HasAnyProof(q)
     /\ F[k].done = {}

\* C15
SumCollat == SumOver(DOMAIN collat, LAMBDA a : collat[a])
C15_Backed == bal[MODC] = SumCollat
C15_Step ==
  LET l == last' IN
  /\ (l.a = "initprovider") =>
       IF l.ok THEN /\ Delta(l.s) = -par.price /\ Delta(MODC) = par.price
                    /\ l.s \in DOMAIN collat' /\ collat'[l.s] = par.price /\ l.s \in DOMAIN providers'
                    /\ \A a \in DOMAIN bal : a \notin {l.s, MODC} => Delta(a) = 0
               ELSE bal' = bal /\ collat' = collat
  /\ (l.a = "shutdown") =>
       IF l.ok THEN /\ l.s \in DOMAIN providers /\ l.s \notin DOMAIN providers' /\ l.s \notin DOMAIN collat'
                    /\ Delta(l.s) = (IF l.s \in DOMAIN collat THEN collat[l.s] ELSE 0)
                    /\ \A a \in DOMAIN bal : a \notin {l.s, MODC} => Delta(a) = 0
                    /\ \A a \in DOMAIN collat : a # l.s => (a \in DOMAIN collat' /\ collat'[a] = collat[a])
               ELSE bal' = bal /\ collat' = collat /\ providers' = providers
  /\ (l.a \notin {"initprovider", "shutdown"}) => (collat' = collat /\ Delta(MODC) = 0)
  /\ (l.a # "block") => bal2' = bal2

TypeOK == (\A a \in DOMAIN bal : bal[a] >= 0) /\ (\A a \in DOMAIN bal2 : bal2[a] >= 0)
=============================================================================

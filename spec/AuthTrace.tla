----------------------------- MODULE AuthTrace -----------------------------
EXTENDS Auth, Json
CONSTANTS TraceFile
VARIABLE l
Trace == ndJsonDeserialize(TraceFile)
E == Trace[l]
Report_(kind, name) == PrintT(<<kind, name, l>>)
Chk(name, F) == IF F THEN TRUE ELSE Report_("VIOL", name)
NT(name, F) == IF F THEN Report_("NT", name) ELSE TRUE
TType == /\ E.a = "msgtype" /\ l' = l + 1 /\ UNCHANGED <<executed, last>>
         /\ Chk("C11_Signers", E.creator # "?" /\ E.signers = Signers([creator |-> E.creator]))
         /\ Chk("C11_Routable", E.routable)
         /\ NT("C11", TRUE)
TDeliver == /\ E.a = "deliver" /\ l' = l + 1 /\ UNCHANGED <<executed, last>>
            /\ Chk("C11_AuthRule", C11_AuthRule(E.creator, E.sigs, E.accepted))
            /\ NT("C11", TRUE)
TReset == E.a = "reset" /\ l' = l + 1 /\ UNCHANGED <<executed, last>>
TInit == l = 1 /\ executed = {} /\ last = [a |-> "init"]
TNext == l <= Len(Trace) /\ (TType \/ TDeliver \/ TReset)
TSpec == TInit /\ [][TNext]_<<l, executed, last>>
HW == TLCSet(1, IF TLCGet(1) < l THEN l ELSE TLCGet(1))
ASSUME TLCSet(1, 0)
Accepted == IF TLCGet(1) = Len(Trace) + 1 THEN PrintT(<<"ACCEPTED", Len(Trace)>>)
            ELSE PrintT(<<"REJECTED_AT", TLCGet(1)>>)
=============================================================================

------------------------------ MODULE MCMint ------------------------------
EXTENDS Mint, Json, Sequences
CONSTANTS Tpbs, Decs, RatioVals, D
VARIABLE hist
RatioSets == {r \in [sr : RatioVals, dr : RatioVals, pr : RatioVals] : r.sr + r.dr + r.pr <= 100}
ParamSets == {[tpb |-> t, dec |-> d, sr |-> r.sr, dr |-> r.dr, pr |-> r.pr] : t \in Tpbs, d \in Decs, r \in RatioSets}
Init == /\ par \in ParamSets /\ prev = -1
        /\ bal = [a \in {"stakers", "dev", "stipend", MINT, "other"} |-> 0]
        /\ supply = 0 /\ height = 0 /\ halted = FALSE
        /\ last = [a |-> "init", ok |-> TRUE]
        /\ hist = <<[a |-> "genesis", p |-> par]>>
Next == /\ (Block \/ \E d \in Decs : (d # par.dec /\ SetParams([par EXCEPT !.dec = d])))
        /\ hist' = hist
View == vars
PC13 == [][C13_Step /\ C13_Params]_<<vars, last>>
\* enumeration of behaviours for replay: every parameter set, D blocks (one parameter change half-way)
EnumNext == /\ Len(hist) <= D
            /\ Block
            /\ hist' = Append(hist, last')
Leaf == Len(hist) = D + 1 \/ halted
EmitLeaf == ~Leaf \/ PrintT(<<"SCN", ToJson(hist)>>)
=============================================================================

CONSTANTS
  Acc = {} Names = {} NameInfo = 0 FreeNames = {} Denoms = {"ujkl", "uusd"} Years = {} Datas = {} Recs = {}
  Prices = {} Jumps = {} YEAR = 5484530 FREETERM = 5733818 MAXH = 2000000000
  FIX = {}
  TraceFile = "trace.ndjson"
SPECIFICATION TSpec
CONSTRAINT HW
POSTCONDITION Accepted
CHECK_DEADLOCK FALSE

CONSTANTS Types = {"t1", "t2"} Accts = {"a", "b", "c"}
INIT Init
NEXT Next
INVARIANT C11_OnlyCreator
CHECK_DEADLOCK FALSE

------------------------------ MODULE MCRns ------------------------------
(* Model-checking / behaviour-generation wrapper of Rns. *)
EXTENDS Rns, Json
CONSTANTS H0, FUND

Table == ("alpha.jkl" :> [len |-> 5, tld |-> "jkl"]) @@ ("beta.jkl" :> [len |-> 4, tld |-> "jkl"])
      @@ ("ab.ibc" :> [len |-> 2, tld |-> "ibc"]) @@ ("x.jkl" :> [len |-> 1, tld |-> "jkl"])
      @@ ("gamma.ibc" :> [len |-> 5, tld |-> "ibc"]) @@ ("abc.jkl" :> [len |-> 3, tld |-> "jkl"])
      @@ ("freeone.jkl" :> [len |-> 7, tld |-> "jkl"]) @@ ("longername.ibc" :> [len |-> 10, tld |-> "ibc"])
      @@ ("abcdef.jkl" :> [len |-> 6, tld |-> "jkl"])
      @@ ("alpha.ibc" :> [len |-> 5, tld |-> "ibc"])   \* the twin of alpha.jkl under the other TLD
      @@ ("myjkl.jkl" :> [len |-> 5, tld |-> "jkl"]) @@ ("tokenibc.ibc" :> [len |-> 8, tld |-> "ibc"])   \* labels that contain the TLD's letters
MCNameInfo == [n \in Names |-> Table[n]]
CONSTANTS PriceAmts
MCAllJumps == 0..2000000000
MCPrices == {[d |-> dd, amt |-> x] : dd \in Denoms, x \in PriceAmts}

Init == /\ names = <<>> /\ sale = <<>> /\ bids = <<>> /\ primary = <<>> /\ inited = {}
        /\ bal = [a \in Acc \cup {MOD, POL, "other"} |-> [d \in Denoms |-> IF a \in Acc THEN FUND ELSE 0]]
        /\ height = H0
        /\ last = [a |-> "init", ok |-> TRUE]

Spec == Init /\ [][Next]_<<vars, last>>
View == vars

PC08 == [][C08Step]_<<vars, last>>
PC09 == [][C09Step]_<<vars, last>>
PC16 == [][C16Step]_<<vars, last>>

=============================================================================

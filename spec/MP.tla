-------------------------------- MODULE MP --------------------------------
(* Hashed file-tree paths (x/filetree/types/merkle-paths.go): MerklePath and AddToMerkle as      *)
(* functions over strings (sequences of characters) with a symbolic injective hash.              *)
(* Property decided here: C20.  Checked (a) on the symbolic function for all strings up to       *)
(* length L, (b) on the real functions: every recorded (string, digest) pair must induce the     *)
(* same partition as the symbolic value, and the recorded AddToMerkle results must agree.        *)
EXTENDS Integers, Sequences, FiniteSets, TLC
CONSTANTS Alphabet, L
SEP == "/"
Strs(n) == UNION {[1..k -> Alphabet] : k \in 0..n}
Trim(s) == IF Len(s) > 0 /\ s[Len(s)] = SEP THEN SubSeq(s, 1, Len(s) - 1) ELSE s     \* strings.TrimSuffix(path, "/")
RECURSIVE Split(_)
Split(s) == IF \A i \in DOMAIN s : s[i] # SEP THEN <<s>>
            ELSE LET i == CHOOSE i \in DOMAIN s : s[i] = SEP /\ \A j \in 1..(i - 1) : s[j] # SEP
                 IN <<SubSeq(s, 1, i - 1)>> \o Split(SubSeq(s, i + 1, Len(s)))
H1(seg) == <<"h", seg>>                       \* sha256(segment)
H2(total, h) == <<"H", total, h>>             \* sha256(total || hex digest)
RECURSIVE Fold(_, _)
Fold(total, segs) == IF segs = <<>> THEN total ELSE Fold(H2(total, H1(Head(segs))), Tail(segs))
MPath(s) == Fold(<<>>, Split(Trim(s)))        \* MerklePath
Add(p, h) == H2(p, h)                         \* AddToMerkle(parentAddress, hashedChild)

NoSep(c) == \A i \in DOMAIN c : c[i] # SEP
EndsSep(s) == Len(s) > 0 /\ s[Len(s)] = SEP
\* parent/child relation, for a non-empty child segment and a parent that does not end in a slash
P1(p, c) == (c # <<>> /\ NoSep(c) /\ ~EndsSep(p)) => MPath(p \o <<SEP>> \o c) = Add(MPath(p), H1(c))
\* a trailing slash is neutral
P2(p) == ~EndsSep(p) => MPath(p \o <<SEP>>) = MPath(p)
\* distinct segment sequences (non-empty last segment) have distinct addresses
P3(s, t) == (~EndsSep(s) /\ ~EndsSep(t) /\ s # <<>> /\ t # <<>> /\ Split(s) # Split(t)) => MPath(s) # MPath(t)
SymbolicOK == /\ \A p \in Strs(L - 2), c \in Strs(2) : Len(p) + Len(c) < L => P1(p, c)
              /\ \A p \in Strs(L - 1) : P2(p)
              /\ \A s, t \in Strs(L - 2) : P3(s, t)
=============================================================================

CONSTANTS
  Owners = {} Provers = {"p1", "p2", "p3"} Merkles = {} Reps = {} Rels = {0} Doms = {"d1"}
  MAXH = 3
  FIX = {"addprover", "walk", "repost"}
  PI = 2 PC = 3 PCS = 2 PFS = 2 PMIN = 2 PPRICE = 2 FUND = 5 GAUGE0 = 0 H0 = 2 Prices = {0, 2, 3} SZ1 = 1 SZ2 = 5 SZ3 = 1 GAUGE2 = 9 Rels2 = {0, 3} MaxFiles = 1
INIT Init
NEXT NextColl
VIEW View
INVARIANTS C15_Backed TypeOK
PROPERTIES PC15
CHECK_DEADLOCK FALSE

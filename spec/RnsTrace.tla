----------------------------- MODULE RnsTrace -----------------------------
(* Trace validation of recorded executions of the real x/rns against Rns.            *)
(* One pass: every line is consumed; for each line TLC                               *)
(*   - takes the logged post-state as the next state,                                *)
(*   - evaluates the spec action on (pre, logged args, logged post): mismatch = DRIFT*)
(*   - evaluates every property formula on the real step: failure = VIOL             *)
(*   - reports the steps on which a property's antecedent held: NT                   *)
EXTENDS Rns, Json
CONSTANTS TraceFile
VARIABLE l
Trace == ndJsonDeserialize(TraceFile)
tvars == <<vars, last, l>>
E == Trace[l]
Meta == {"reset"}

SeqToSet(q) == {q[i] : i \in DOMAIN q}
LBids(q) == [k \in {<<r.b, r.n>> : r \in SeqToSet(q)} |->
               (CHOOSE r \in SeqToSet(q) : <<r.b, r.n>> = k).p]
LoggedPost(p) == /\ names' = p.names /\ sale' = p.sale /\ bids' = LBids(p.bids)
                 /\ primary' = p.primary /\ inited' = SeqToSet(p.inited)
                 /\ bal' = p.bal /\ height' = p.height
Lbl(e) == [f \in (DOMAIN e) \ {"post", "x", "base"} |-> e[f]]

SpecAct(e) ==
  CASE e.a = "register" -> Register(e.s, e.n, e.len, e.tld, e.y, e.data, e.prim, e.yp)
    [] e.a = "list"     -> List(e.s, e.n, e.p)
    [] e.a = "delist"   -> Delist(e.s, e.n)
    [] e.a = "buy"      -> Buy(e.s, e.n)
    [] e.a = "bid"      -> Bid(e.s, e.n, e.p)
    [] e.a = "cancel"   -> Cancel(e.s, e.n)
    [] e.a = "accept"   -> Accept(e.s, e.n, e.b)
    [] e.a = "transfer" -> Transfer(e.s, e.n, e.r)
    [] e.a = "update"   -> Update(e.s, e.n, e.data)
    [] e.a = "addrec"   -> AddRec(e.s, e.n, e.r)
    [] e.a = "delrec"   -> DelRec(e.s, e.n, e.r)
    [] e.a = "initfree" -> InitFree(e.s, e.n)
    [] e.a = "makeprimary" -> MakePrimary(e.s, e.n)
    [] e.a = "jump"     -> Jump(e.h)

Report(kind, name) == PrintT(<<kind, name, l>>)
Chk(name, F) == IF F THEN TRUE ELSE Report("VIOL", name)
NT(name, F) == IF F THEN Report("NT", name) ELSE TRUE

\* antecedents (non-triviality of a step for a property)
NT08 == \E n \in DOMAIN names : Live(n) /\
          (names'[n].owner # names[n].owner \/ ("s" \in DOMAIN last' /\ last'.s # names[n].owner /\ last'.n = n))
NT09 == last'.a \in {"cancel", "accept", "bid"} /\ last'.ok /\ bids # <<>>
NT16 == last'.a = "register" /\ last'.ok

\* the quoted yearly price is the listed TLD base price (chain table, logged) times the length tier
C16_Listed == (E.a = "register") => E.yp = E.base * Tier(E.len)

Props == /\ Chk("C08Step", C08Step) /\ Chk("C09Step", C09Step) /\ Chk("C16Step", C16Step) /\ Chk("C16_Listed", C16_Listed)
         /\ Chk("C09_Escrow", C09_Escrow => C09_Escrow') /\ Chk("TypeOK", TypeOK')
         /\ NT("C08", NT08) /\ NT("C09", NT09) /\ NT("C16", NT16)

TStep == /\ E.a \notin Meta
         /\ l' = l + 1
         /\ LoggedPost(E.post) /\ last' = Lbl(E)
         /\ (IF SpecAct(E) THEN TRUE ELSE Report("DRIFT", E.a))
         /\ Props
TReset == /\ E.a = "reset" /\ l' = l + 1
          /\ LoggedPost(E.post) /\ last' = [a |-> "reset", ok |-> TRUE]
          /\ Chk("C09_Escrow", C09_Escrow')
TInit == /\ l = 1 /\ names = <<>> /\ sale = <<>> /\ bids = <<>> /\ primary = <<>> /\ inited = {}
         /\ bal = <<>> /\ height = 0 /\ last = [a |-> "init", ok |-> TRUE]
TNext == l <= Len(Trace) /\ (TStep \/ TReset)
TSpec == TInit /\ [][TNext]_tvars

HW == TLCSet(1, IF TLCGet(1) < l THEN l ELSE TLCGet(1))
ASSUME TLCSet(1, 0)
Accepted == IF TLCGet(1) = Len(Trace) + 1 THEN PrintT(<<"ACCEPTED", Len(Trace)>>)
            ELSE PrintT(<<"REJECTED_AT", TLCGet(1)>>)
=============================================================================

------------------------------- MODULE Chain -------------------------------
(* The block loop of the assembled application (app/app.go begin-blockers: jklmint, ..., storage) *)
(* seen from the outside: transactions that passed stateless validation change the state,          *)
(* block boundaries run the begin-block routines. `halted` is set by the explicit panic            *)
(* conditions of the code paths reachable from BeginBlock:                                         *)
(*   rewards.go rewardAllProviders: quotient by the network total (zero divisor), negative share   *)
(*   -> negative coin; jklmint BlockMint: negative emission -> negative coin.                       *)
(* Properties decided here: C05 (never halted), C06 (two replicas fed the same history agree).      *)
EXTENDS Integers, FiniteSets, FiniteSetsExt, TLC
CONSTANTS SizeDom, RepDom, Provers, MAXH, CW,
          FIX     \* repaired deviations: subset of {"sizes"}
VARIABLES files,   \* id -> [size, maxp, provers]
          nextid, height, halted, last
vars == <<files, nextid, height, halted>>
Fixed(x) == x \in FIX
SumOver(S, F(_)) == FoldSet(LAMBDA x, acc : acc + F(x), 0, S)
\* MsgPostFile.ValidateBasic (deviation "sizes": the pinned one checks only the creator)
Valid(sz, mp) == Fixed("sizes") => (sz > 0 /\ mp > 0)
PostFile(sz, mp) ==
  /\ ~halted
  /\ IF Valid(sz, mp)
     THEN files' = [x \in (DOMAIN files) \cup {nextid} |-> IF x = nextid THEN [size |-> sz, maxp |-> mp, provers |-> {}] ELSE files[x]]
          /\ nextid' = nextid + 1
     ELSE UNCHANGED <<files, nextid>>
  /\ UNCHANGED <<height, halted>> /\ last' = [a |-> "postfile", sz |-> sz, mp |-> mp, ok |-> Valid(sz, mp)]
Join(p, f) ==
  /\ ~halted /\ f \in DOMAIN files /\ p \notin files[f].provers /\ Cardinality(files[f].provers) < files[f].maxp
  /\ files' = [files EXCEPT ![f].provers = @ \cup {p}]
  /\ UNCHANGED <<nextid, height, halted>> /\ last' = [a |-> "join", p |-> p, f |-> f, ok |-> TRUE]
\* reward block: total = sum size * #provers; each credited prover's share = worth / total
Total == SumOver(DOMAIN files, LAMBDA f : files[f].size * Cardinality(files[f].provers))
Worth(p) == SumOver({f \in DOMAIN files : p \in files[f].provers}, LAMBDA f : files[f].size)
Credited == UNION {files[f].provers : f \in DOMAIN files}
Panics == Credited # {} /\ (Total = 0 \/ \E p \in Credited : (Worth(p) < 0) # (Total < 0) /\ Worth(p) # 0)
Block ==
  /\ ~halted /\ height < MAXH /\ height' = height + 1
  /\ IF (height + 1) % CW = 0 /\ Panics THEN halted' = TRUE ELSE halted' = FALSE
  /\ UNCHANGED <<files, nextid>> /\ last' = [a |-> "block", ok |-> ~((height + 1) % CW = 0 /\ Panics)]
Init == files = <<>> /\ nextid = 1 /\ height = 1 /\ halted = FALSE /\ last = [a |-> "init", ok |-> TRUE]
Next == \/ \E sz \in SizeDom, mp \in RepDom : nextid <= 3 /\ PostFile(sz, mp)
        \/ \E p \in Provers, f \in DOMAIN files : Join(p, f)
        \/ Block
C05_NoHalt == ~halted
=============================================================================

CONSTANTS
  Kinds = {"storage/FileProof", "storage/FilesByMerkle", "rns/PrimaryName", "rns/Names", "notification/Block", "jklmint/MintedBlock"}
  Recs = {"r1", "r2"}
  FIX = {"storage/FileProof", "rns/PrimaryName", "notification/Block", "jklmint/MintedBlock"}
INIT Init
NEXT Next
INVARIANT C19_RoundTrip
CHECK_DEADLOCK FALSE

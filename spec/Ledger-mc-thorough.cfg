CONSTANTS
  Denoms = {"ujkl"}
  MintDenom = "ujkl"
  MaxAmt = 3
  FIX = {"refund", "passfee", "fullmint"}
  Start = 6
  E0 = 3
  MaxSupply = 12
INIT Init
NEXT Next
VIEW View
CONSTRAINT Solvent
INVARIANTS Conserved LG_RnsBacked LG_CollBacked LG_NonNeg
PROPERTY PStep
CHECK_DEADLOCK FALSE

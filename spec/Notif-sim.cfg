CONSTANTS
  Acc = {"a", "b", "c"} Targets = {"a", "b", "c", "n1.jkl", "n2.jkl", "nx.jkl"} NameSet = {"n1.jkl", "n2.jkl"}
  Contents = {"c1", "c2", "c3"} MAXT = 12 MaxSent = 30
  FIX = {}
  D = 30
INIT SimInit
NEXT SimNext
INVARIANT Emit
CHECK_DEADLOCK FALSE

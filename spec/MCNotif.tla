------------------------------ MODULE MCNotif ------------------------------
EXTENDS Notif
CONSTANTS Contents, MAXT, NameSet, MaxSent
Init == /\ inbox = [a \in Acc |-> {}] /\ blocks = {} /\ names = [n \in NameSet |-> CHOOSE a \in Acc : TRUE]
        /\ time = 1 /\ sent = {} /\ deleted = {} /\ gblocks = {} /\ last = [a |-> "init", ok |-> TRUE]
G(A) == A /\ GhostNext
Next == G(\/ (Cardinality(sent) < MaxSent /\ \E s \in Acc, to \in Targets, c \in Contents : Create(s, to, c))
          \/ \E s \in Acc, f \in Acc, t \in 0..MAXT : Delete(s, f, t)
          \/ \E s \in Acc, t \in Targets : Block(s, <<t>>)
          \/ \E n \in NameSet, a \in Acc : Repoint(n, a)
          \/ (time < MAXT /\ Tick))
View == <<vars, ghosts>>
AV == <<vars, ghosts, last>>
PC18 == [][C18_Step /\ C18_BlockSilent /\ C18_BlockRecorded]_AV
=============================================================================

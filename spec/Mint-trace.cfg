CONSTANTS
  MAXH = 2000000000
  FIX = {"clamp"}
  TraceFile = "trace.ndjson"
SPECIFICATION TSpec
CONSTRAINT HW
POSTCONDITION Accepted
CHECK_DEADLOCK FALSE

CONSTANTS Alphabet = {"a", "b", "/"} L = 6
  TraceFile = "trace.ndjson"
SPECIFICATION TSpec
CONSTRAINT HW
POSTCONDITION Accepted
CHECK_DEADLOCK FALSE

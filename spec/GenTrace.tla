------------------------------ MODULE GenTrace ------------------------------
(* Validation of recorded export / validate / import / re-export round trips of the real chain. *)
EXTENDS Integers, Sequences, FiniteSets, TLC, Json
CONSTANTS TraceFile
VARIABLE l
Trace == ndJsonDeserialize(TraceFile)
E == Trace[l]
Report_(kind, name) == PrintT(<<kind, name, l>>)
Chk(name, F) == IF F THEN TRUE ELSE Report_("VIOL", name)
NT(name, F) == IF F THEN Report_("NT", name) ELSE TRUE
Mods == {"storage", "rns", "filetree", "oracle", "notification", "jklmint"}
TStep == /\ E.a = "roundtrip" /\ l' = l + 1
         \* every record of every kind survives unchanged, nothing appears
         /\ \A i \in DOMAIN E.kinds : LET r == E.kinds[i] IN
               /\ Chk("C19|" \o r.k \o "|lost", r.lost = 0)
               /\ Chk("C19|" \o r.k \o "|changed", r.changed = 0)
               /\ Chk("C19|" \o r.k \o "|extra", r.extra = 0)
         /\ \A m \in Mods : /\ Chk("C19|" \o m \o "|validate", E.valid[m])
                            /\ Chk("C19|" \o m \o "|reexport", E.reexport[m])
                            /\ Chk("C19|" \o m \o "|params", E.params[m])
         /\ NT("C19", \E i \in DOMAIN E.kinds : E.kinds[i].n > 0)
TReset == E.a = "reset" /\ l' = l + 1
TInit == l = 1
TNext == l <= Len(Trace) /\ (TStep \/ TReset)
TSpec == TInit /\ [][TNext]_l
HW == TLCSet(1, IF TLCGet(1) < l THEN l ELSE TLCGet(1))
ASSUME TLCSet(1, 0)
Accepted == IF TLCGet(1) = Len(Trace) + 1 THEN PrintT(<<"ACCEPTED", Len(Trace)>>)
            ELSE PrintT(<<"REJECTED_AT", TLCGet(1)>>)
=============================================================================

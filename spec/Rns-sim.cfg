CONSTANTS
  Acc = {"a", "b", "c"} NameInfo <- MCNameInfo FreeNames = {"freeone.jkl"}
  Names = {"alpha.jkl", "ab.ibc", "beta.jkl", "alpha.ibc"}
  Denoms = {"ujkl", "uusd"} Years = {1, 2} Datas = {"{}", "d1"} Recs = {"r1", "r2"}
  Prices <- MCPrices PriceAmts = {1, 777, 2000000}
  Jumps <- MCAllJumps
  YEAR = 5484530 FREETERM = 5733818 MAXH = 2000000000
  FIX = {"stale", "lapsed", "bid"}
  H0 = 2 FUND = 400000000
  D = 30
INIT SimInit
NEXT SimNext
INVARIANT Emit
CHECK_DEADLOCK FALSE

CONSTANTS
  Owners = {"u1", "u2"} Provers = {"p1", "p2", "p3", "p4"} Merkles = {"m1", "m2"} Reps = {1, 2, 3}
  Rels = {0} Doms = {"d1", "d2", ""}
  MAXH = 40
  FIX = {"addprover", "walk", "repost"}
  PI = 3
  PC = 4
  PCS = 2
  PFS = 2
  PMIN = 2
  PPRICE = 1000 FUND = 10000 GAUGE0 = 0 H0 = 2 Prices = {2, 500, 2500} SZ1 = 3 SZ2 = 5 SZ3 = 1 GAUGE2 = 0 Rels2 = {0} MaxFiles = 3
  D = 40
INIT SimInit
NEXT SimNext
INVARIANT Emit
CHECK_DEADLOCK FALSE

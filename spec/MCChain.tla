------------------------------ MODULE MCChain ------------------------------
EXTENDS Chain
CONSTANTS SizesPos, SizesNeg
MCSizeDom == SizesPos \cup {0} \cup {0 - x : x \in SizesNeg}
MCRepDom == {0 - 1, 0, 1, 2}
=============================================================================

------------------------------ MODULE SimNotif ------------------------------
EXTENDS MCNotif, Json
CONSTANT D
VARIABLE hist
SimInit == Init /\ hist = <<>>
End == UNCHANGED <<vars, ghosts>> /\ last' = [a |-> "end", ok |-> TRUE] /\ hist' = hist
SimNext == IF Len(hist) >= D THEN End
           ELSE /\ Next /\ hist' = Append(hist, last') /\ (last'.ok \/ RandomElement(1..3) = 1)
Emit == last.a # "end" \/ PrintT(<<"SCN", ToJson(hist)>>)
=============================================================================

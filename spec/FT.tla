-------------------------------- MODULE FT --------------------------------
(* File tree (x/filetree): entries keyed by (address, owner address); access lists inside   *)
(* the entry. Handlers: x/filetree/keeper/msg_server_*.go, access.go.                        *)
(* Hash values are symbolic: the harness decodes every digest it can derive from the known   *)
(* accounts, tracking numbers and paths ("v|t1|a" = viewer id of account a under tracking    *)
(* number t1, entry owner = label of the account whose owner address it is); anything else   *)
(* stays a raw string. `key` is the store key string the message addresses.                  *)
(* Property decided here: C10.                                                               *)
EXTENDS Integers, Sequences, FiniteSets, TLC

CONSTANTS Acc
VARIABLES entries,   \* key -> [addr, owner, viewers, editors, tracking, contents]
          last
vars == <<entries>>

Put(f, k, v) == [x \in (DOMAIN f) \cup {k} |-> IF x = k THEN v ELSE f[x]]
Del(f, k)    == [x \in (DOMAIN f) \ {k} |-> f[x]]
VId(t, a) == "v|" \o t \o "|" \o a
EId(t, a) == "e|" \o t \o "|" \o a
Bad(m) == "!invalid" \in DOMAIN m            \* the stored access string is not a JSON map
IsOwner(e, s) == e.owner = s                 \* access.go IsOwner (decoded)
HasEdit(e, s) == ~Bad(e.editors) /\ EId(e.tracking, s) \in DOMAIN e.editors
Fail(lbl) == UNCHANGED vars /\ last' = [lbl EXCEPT !.ok = FALSE]

\* ids[i] -> keys[i], later pairs win (msg_server_add_viewers.go)
RECURSIVE AddAll(_, _, _, _)
AddAll(m, ids, keys, i) == IF i > Len(ids) THEN m ELSE AddAll(Put(m, ids[i], keys[i]), ids, keys, i + 1)
RemoveAll(m, ids) == [x \in (DOMAIN m) \ {ids[i] : i \in DOMAIN ids} |-> m[x]]

Provision(s, key, addr, viewers, editors, tracking) ==
  /\ entries' = Put(entries, key, [addr |-> addr, owner |-> s, viewers |-> viewers, editors |-> editors,
                                    tracking |-> tracking, contents |-> ""])
  /\ last' = [a |-> "provision", s |-> s, key |-> key, addr |-> addr, viewers |-> viewers, editors |-> editors,
              tracking |-> tracking, ok |-> TRUE]

Post(s, pkey, ckey, caddr, owner, viewers, editors, tracking, contents) ==
  LET lbl == [a |-> "post", s |-> s, pkey |-> pkey, ckey |-> ckey, caddr |-> caddr, owner |-> owner, viewers |-> viewers,
              editors |-> editors, tracking |-> tracking, contents |-> contents, ok |-> TRUE] IN
  IF pkey \notin DOMAIN entries THEN Fail(lbl)
  ELSE IF ~HasEdit(entries[pkey], s) THEN Fail(lbl)
  ELSE /\ entries' = Put(entries, ckey, [addr |-> caddr, owner |-> owner, viewers |-> viewers, editors |-> editors,
                                          tracking |-> tracking, contents |-> contents])
       /\ last' = lbl

Delete(s, key) ==
  LET lbl == [a |-> "delete", s |-> s, key |-> key, ok |-> TRUE] IN
  IF key \notin DOMAIN entries THEN Fail(lbl)
  ELSE IF ~IsOwner(entries[key], s) THEN Fail(lbl)
  ELSE entries' = Del(entries, key) /\ last' = lbl

ChangeOwner(s, key, newkey, newowner) ==
  LET lbl == [a |-> "chown", s |-> s, key |-> key, newkey |-> newkey, newowner |-> newowner, ok |-> TRUE] IN
  IF key \notin DOMAIN entries THEN Fail(lbl)
  ELSE IF ~IsOwner(entries[key], s) \/ newkey \in DOMAIN entries THEN Fail(lbl)
  ELSE /\ entries' = Del(Put(entries, newkey, [entries[key] EXCEPT !.owner = newowner]), key)
       /\ last' = lbl

\* which = "viewers" | "editors"
AddAccess(which, s, key, ids, keys) ==
  LET lbl == [a |-> "add" \o which, s |-> s, key |-> key, ids |-> ids, keys |-> keys, ok |-> TRUE] IN
  IF key \notin DOMAIN entries THEN Fail(lbl)
  ELSE LET e == entries[key] IN
       IF ~IsOwner(e, s) \/ Bad(e[which]) \/ Len(keys) < Len(ids) THEN Fail(lbl)
       ELSE /\ entries' = [entries EXCEPT ![key][which] = AddAll(e[which], ids, keys, 1)]
            /\ last' = lbl
RemoveAccess(which, s, key, ids) ==
  LET lbl == [a |-> "rm" \o which, s |-> s, key |-> key, ids |-> ids, ok |-> TRUE] IN
  IF key \notin DOMAIN entries THEN Fail(lbl)
  ELSE LET e == entries[key] IN
       IF ~IsOwner(e, s) \/ Bad(e[which]) THEN Fail(lbl)
       ELSE /\ entries' = [entries EXCEPT ![key][which] = RemoveAll(e[which], ids)]
            /\ last' = lbl
ResetAccess(which, s, key) ==
  LET lbl == [a |-> "reset" \o which, s |-> s, key |-> key, ok |-> TRUE] IN
  IF key \notin DOMAIN entries THEN Fail(lbl)
  ELSE LET e == entries[key]
           own == IF which = "viewers" THEN VId(e.tracking, s) ELSE EId(e.tracking, s) IN
       IF ~IsOwner(e, s) \/ Bad(e[which]) THEN Fail(lbl)
       ELSE /\ entries' = [entries EXCEPT ![key][which] =
                              [x \in {own} |-> IF own \in DOMAIN e[which] THEN e[which][own] ELSE ""]]
            /\ last' = lbl

---------------------------------------------------------------------------
(* C10 *)
OthersSame(K) == \A k \in ((DOMAIN entries) \cup (DOMAIN entries')) \ K :
                    k \in DOMAIN entries /\ k \in DOMAIN entries' /\ entries'[k] = entries[k]
OnlyField(e1, e2, f) == \A g \in {"addr", "owner", "viewers", "editors", "tracking", "contents"} \ {f} : e2[g] = e1[g]
C10_Step ==
  LET l == last' IN
  /\ ~l.ok => entries' = entries
  /\ (l.a \in {"delete", "chown", "addviewers", "addeditors", "rmviewers", "rmeditors", "resetviewers", "reseteditors"}
      /\ entries' # entries) =>
        /\ l.key \in DOMAIN entries /\ IsOwner(entries[l.key], l.s)
        /\ OthersSame(IF l.a = "chown" THEN {l.key, l.newkey} ELSE {l.key})
  /\ (l.a = "delete" /\ l.ok) => l.key \notin DOMAIN entries'
  /\ (l.a = "chown" /\ l.ok) =>
        /\ l.key \notin DOMAIN entries' /\ l.newkey \notin DOMAIN entries /\ l.newkey \in DOMAIN entries'
        /\ entries'[l.newkey] = [entries[l.key] EXCEPT !.owner = l.newowner]
  /\ (l.a \in {"addviewers", "addeditors", "rmviewers", "rmeditors", "resetviewers", "reseteditors"} /\ l.ok) =>
        LET f == IF l.a \in {"addviewers", "rmviewers", "resetviewers"} THEN "viewers" ELSE "editors"
            e1 == entries[l.key]  e2 == entries'[l.key] IN
        /\ l.key \in DOMAIN entries'
        /\ OnlyField(e1, e2, f)
        /\ (l.a \in {"addviewers", "addeditors"}) =>
              /\ \A i \in DOMAIN l.ids : l.ids[i] \in DOMAIN e2[f]
              /\ \A x \in ((DOMAIN e1[f]) \cup (DOMAIN e2[f])) \ {l.ids[i] : i \in DOMAIN l.ids} :
                    x \in DOMAIN e1[f] /\ x \in DOMAIN e2[f] /\ e2[f][x] = e1[f][x]
        /\ (l.a \in {"rmviewers", "rmeditors"}) =>
              /\ \A i \in DOMAIN l.ids : l.ids[i] \notin DOMAIN e2[f]
              /\ \A x \in (DOMAIN e1[f]) \ {l.ids[i] : i \in DOMAIN l.ids} : x \in DOMAIN e2[f] /\ e2[f][x] = e1[f][x]
              /\ DOMAIN e2[f] \subseteq DOMAIN e1[f]
        /\ (l.a \in {"resetviewers", "reseteditors"}) =>
              DOMAIN e2[f] = {IF f = "viewers" THEN VId(e1.tracking, l.s) ELSE EId(e1.tracking, l.s)}
  /\ (l.a = "post" /\ entries' # entries) =>
        /\ l.pkey \in DOMAIN entries /\ HasEdit(entries[l.pkey], l.s)
        /\ OthersSame({l.ckey})
        /\ l.ckey \in DOMAIN entries' /\ entries'[l.ckey].addr = l.caddr
        /\ entries'[l.ckey].owner = entries[l.pkey].owner
  /\ (l.a = "post" /\ l.ok) => l.ckey \in DOMAIN entries'
  /\ (l.a = "provision") =>
        /\ OthersSame({l.key})
        /\ l.ok => (l.key \in DOMAIN entries' /\ entries'[l.key].owner = l.s /\ entries'[l.key].addr = l.addr)
=============================================================================

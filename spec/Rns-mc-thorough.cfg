CONSTANTS
  Acc = {"a", "b", "c"} Names = {"alpha.jkl"} NameInfo <- MCNameInfo FreeNames = {}
  Denoms = {"ujkl"} Years = {1} Datas = {"{}"} Recs = {}
  Prices <- MCPrices PriceAmts = {1000000, 2000000}
  Jumps = {3, 5484531, 5484532, 5484533}
  YEAR = 5484530 FREETERM = 5733818 MAXH = 11000000
  FIX = {"stale", "lapsed", "bid"}
  H0 = 2 FUND = 12000000
INIT Init
NEXT NextCore
VIEW View
INVARIANTS C09_Escrow TypeOK
PROPERTIES PC08 PC09 PC16
CHECK_DEADLOCK FALSE

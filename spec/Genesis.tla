------------------------------ MODULE Genesis ------------------------------
(* Genesis export / import of the custom modules (x/*/genesis.go).                           *)
(* A module store is a family of record kinds; ExportGenesis copies the kinds it knows into   *)
(* the genesis file, InitGenesis writes them back. The round trip is the identity exactly     *)
(* when every kind is exported. Deviations of the pinned code (kinds hand-written exports     *)
(* forget, and two transmutations) are named; they are recorded as known findings.            *)
(* Property decided here: C19.                                                                *)
EXTENDS Integers, FiniteSets, TLC
CONSTANTS Kinds, Recs,
          FIX     \* kinds whose export has been repaired (subset of Forgotten)
Forgotten == {"storage/FileProof", "rns/PrimaryName", "notification/Block", "jklmint/MintedBlock"}
Exported == Kinds \ (Forgotten \ FIX)
VARIABLES src, dst, last
Export(s) == [k \in Exported |-> s[k]]
Import(g) == [k \in Kinds |-> IF k \in DOMAIN g THEN g[k] ELSE {}]
Init == src \in [Kinds -> SUBSET Recs] /\ dst = [k \in Kinds |-> {}] /\ last = [a |-> "init"]
RoundTrip == /\ last.a = "init" /\ dst' = Import(Export(src)) /\ UNCHANGED src /\ last' = [a |-> "roundtrip"]
Next == RoundTrip
C19_RoundTrip == last.a = "roundtrip" => (dst = src /\ Export(dst) = Export(src))
=============================================================================

-------------------------------- MODULE Own --------------------------------
(* Resource ownership of the custom modules: provider records, oracle feeds, primary names,     *)
(* block lists, stored-file deletion, contract-posted files. Every message acts on the resource *)
(* that belongs to its creator. Handlers: x/storage/keeper/msg_server_set_provider_*.go,         *)
(* msg_server_provider_claim.go, msg_server_init_provider.go, msg_server_file_delete.go,         *)
(* x/oracle/keeper/msg_server_feeds.go, x/rns/keeper/msg_server_register.go MakePrimary,         *)
(* x/notifications/keeper/msg_server_block_senders.go, wasmbinding/message_plugin.go.            *)
(* Property decided here: C11 (resource clause).                                                 *)
EXTENDS Integers, Sequences, FiniteSets, TLC
CONSTANTS Acc
VARIABLES providers,  \* acct -> [ip, keybase, space, claimers]
          feeds,      \* name -> [owner, data]
          primary,    \* acct -> name
          blocks,     \* set of <<owner, blocked>>
          files,      \* set of <<merkle, owner, start>>
          inbox,      \* set of <<recipient, sender>>: a notification of sender rests in recipient's inbox (block time is fixed per history)
          height, last
vars == <<providers, feeds, primary, blocks, files, inbox, height>>
Put(f, k, v) == [x \in (DOMAIN f) \cup {k} |-> IF x = k THEN v ELSE f[x]]
Del(f, k)    == [x \in (DOMAIN f) \ {k} |-> f[x]]
InSeq(x, q)  == \E i \in DOMAIN q : q[i] = x
Fail(lbl) == UNCHANGED vars /\ last' = [lbl EXCEPT !.ok = FALSE]

InitProvider(s, ip) ==
  LET lbl == [a |-> "initprovider", s |-> s, v |-> ip, ok |-> TRUE] IN
  IF s \in DOMAIN providers THEN Fail(lbl)
  ELSE /\ providers' = Put(providers, s, [ip |-> ip, keybase |-> "kb", space |-> 1000, claimers |-> <<>>])
       /\ UNCHANGED <<feeds, primary, blocks, files, inbox, height>> /\ last' = lbl
Shutdown(s) ==
  LET lbl == [a |-> "shutdown", s |-> s, ok |-> TRUE] IN
  IF s \notin DOMAIN providers THEN Fail(lbl)
  ELSE providers' = Del(providers, s) /\ UNCHANGED <<feeds, primary, blocks, files, inbox, height>> /\ last' = lbl
\* field in {"ip", "keybase", "space"}
SetField(s, field, v) ==
  LET lbl == [a |-> "set" \o field, s |-> s, v |-> v, ok |-> TRUE] IN
  IF s \notin DOMAIN providers THEN Fail(lbl)
  ELSE providers' = [providers EXCEPT ![s][field] = v] /\ UNCHANGED <<feeds, primary, blocks, files, inbox, height>> /\ last' = lbl
AddClaimer(s, c) ==
  LET lbl == [a |-> "addclaimer", s |-> s, c |-> c, ok |-> TRUE] IN
  IF s \notin DOMAIN providers THEN Fail(lbl)
  ELSE IF InSeq(c, providers[s].claimers) THEN Fail(lbl)
  ELSE providers' = [providers EXCEPT ![s].claimers = Append(@, c)] /\ UNCHANGED <<feeds, primary, blocks, files, inbox, height>> /\ last' = lbl
RmClaimer(s, c) ==
  LET lbl == [a |-> "rmclaimer", s |-> s, c |-> c, ok |-> TRUE] IN
  IF s \notin DOMAIN providers THEN Fail(lbl)
  ELSE IF ~InSeq(c, providers[s].claimers) THEN Fail(lbl)
  ELSE providers' = [providers EXCEPT ![s].claimers = SelectSeq(@, LAMBDA x : x # c)] /\ UNCHANGED <<feeds, primary, blocks, files, inbox, height>> /\ last' = lbl
CreateFeed(s, n) ==
  LET lbl == [a |-> "createfeed", s |-> s, n |-> n, ok |-> TRUE] IN
  IF n \in DOMAIN feeds THEN Fail(lbl)
  ELSE feeds' = Put(feeds, n, [owner |-> s, data |-> ""]) /\ UNCHANGED <<providers, primary, blocks, files, inbox, height>> /\ last' = lbl
UpdateFeed(s, n, d) ==
  LET lbl == [a |-> "updatefeed", s |-> s, n |-> n, d |-> d, ok |-> TRUE] IN
  IF n \notin DOMAIN feeds THEN Fail(lbl)
  ELSE IF feeds[n].owner # s THEN Fail(lbl)
  ELSE feeds' = [feeds EXCEPT ![n].data = d] /\ UNCHANGED <<providers, primary, blocks, files, inbox, height>> /\ last' = lbl
MakePrimary(s, n) ==
  /\ primary' = Put(primary, s, n) /\ UNCHANGED <<providers, feeds, blocks, files, inbox, height>>
  /\ last' = [a |-> "makeprimary", s |-> s, n |-> n, ok |-> TRUE]
BlockSender(s, b) ==
  /\ blocks' = blocks \cup {<<s, b>>} /\ UNCHANGED <<providers, feeds, primary, files, inbox, height>>
  /\ last' = [a |-> "blocksender", s |-> s, b |-> b, ok |-> TRUE]
PostFile(s, m) ==
  /\ files' = files \cup {<<m, s, height>>} /\ UNCHANGED <<providers, feeds, primary, blocks, inbox, height>>
  /\ last' = [a |-> "postfile", s |-> s, m |-> m, ok |-> TRUE]
\* the message can only name (merkle, start); the owner part of the key is the creator
DeleteFile(s, m, st) ==
  /\ files' = files \ {<<m, s, st>>} /\ UNCHANGED <<providers, feeds, primary, blocks, inbox, height>>
  /\ last' = [a |-> "deletefile", s |-> s, m |-> m, st |-> st, ok |-> TRUE]
\* x/notifications: a notification lands in the recipient's inbox unless the recipient blocked the sender;
\* only the inbox owner deletes from it (msg_server_create_notifications.go, msg_server_delete_notifications.go)
Notify(s, to) ==
  LET lbl == [a |-> "notify", s |-> s, to |-> to, ok |-> TRUE] IN
  IF <<to, s>> \in blocks THEN Fail(lbl)
  ELSE inbox' = inbox \cup {<<to, s>>} /\ UNCHANGED <<providers, feeds, primary, blocks, files, height>> /\ last' = lbl
DelNotif(s, from) ==
  /\ inbox' = inbox \ {<<s, from>>} /\ UNCHANGED <<providers, feeds, primary, blocks, files, height>>
  /\ last' = [a |-> "delnotif", s |-> s, from |-> from, ok |-> TRUE]
\* a contract posts a file through the wasm binding: only in its own name
ContractPost(contract, creator, m) ==
  LET lbl == [a |-> "contractpost", s |-> contract, creator |-> creator, m |-> m, ok |-> TRUE] IN
  IF creator # contract THEN Fail(lbl)
  ELSE files' = files \cup {<<m, contract, height>>} /\ UNCHANGED <<providers, feeds, primary, blocks, inbox, height>> /\ last' = lbl
Tick == height' = height + 1 /\ UNCHANGED <<providers, feeds, primary, blocks, files, inbox>> /\ last' = [a |-> "tick", s |-> "none", ok |-> TRUE]

C11_Own ==
  LET l == last'  s == l.s IN
  /\ \A p \in (DOMAIN providers) \cup (DOMAIN providers') : p # s =>
        (p \in DOMAIN providers /\ p \in DOMAIN providers' /\ providers'[p] = providers[p])
  /\ \A n \in (DOMAIN feeds) \cup (DOMAIN feeds') :
        IF n \in DOMAIN feeds THEN n \in DOMAIN feeds' /\ (feeds'[n] # feeds[n] => (feeds[n].owner = s /\ feeds'[n].owner = s))
        ELSE feeds'[n].owner = s
  /\ \A a \in (DOMAIN primary) \cup (DOMAIN primary') : a # s =>
        (a \in DOMAIN primary /\ a \in DOMAIN primary' /\ primary'[a] = primary[a])
  /\ \A b \in blocks' \ blocks : b[1] = s
  /\ blocks \subseteq blocks'
  /\ \A f \in files \ files' : f[2] = s
  /\ \A f \in files' \ files : f[2] = s
  /\ (l.a = "contractpost" /\ l.ok) => l.creator = l.s
  /\ \A e \in inbox \ inbox' : e[1] = s      \* an inbox loses entries only by a message of its owner
  /\ \A e \in inbox' \ inbox : e[2] = s      \* and gains only entries whose sender is the signer
=============================================================================

CONSTANTS
  Payers = {"a"} Others = {} MAXH = 7
  FIX = {"ref", "space", "gaugeid", "sizes"}
  Slots = {"g1", "g2"} Quotes = {10} Units = {1000} Days = {30} SzsPos = {400, 700} SzsNeg = {} Mps = {1} Dts = {240}
  PREF = 25 PPOL = 40 PCW = 2 PIW = 2 FUND = 25 H0 = 2 Ratios = {} MaxFiles = 2
INIT Init
NEXT NextSpace
VIEW View
INVARIANTS TypeOK C07_Used
PROPERTIES PC04 PC07 PC12
CHECK_DEADLOCK FALSE

CONSTANTS
  TraceFile = "trace.ndjson"
SPECIFICATION TSpec
CONSTRAINT HW
POSTCONDITION Accepted
CHECK_DEADLOCK FALSE

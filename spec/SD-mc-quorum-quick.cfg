CONSTANTS
  Owners = {"u1"} Provers = {"p1", "p2", "p3"} Merkles = {"m1"} Reps = {3} Rels = {0} Doms = {"d1", "d2"}
  MAXH = 3
  FIX = {"addprover", "walk", "repost"}
  PI = 2 PC = 3 PCS = 2 PFS = 2 PMIN = 2 PPRICE = 0 FUND = 0 GAUGE0 = 0 H0 = 2 Prices = {} SZ1 = 1 SZ2 = 5 SZ3 = 1 GAUGE2 = 9 Rels2 = {0, 3} MaxFiles = 1
INIT Init
NEXT NextQuorumQ
VIEW View
INVARIANTS C01_Listed C17_Indexes C17_Lists C15_Backed TypeOK
PROPERTIES PC14a PC14b PC01a PC15
CHECK_DEADLOCK FALSE

----------------------------- MODULE ChainTrace -----------------------------
(* Validation of recorded ABCI executions of the assembled application.                      *)
(* mode "single": every block boundary must complete without panic (C05).                     *)
(* mode "pair"  : each line carries the observations of two independent executions (A, B) of  *)
(* the same history; they must be identical (tx code, gas, event digest, app hash) (C06).     *)
EXTENDS Integers, Sequences, TLC, Json
CONSTANTS TraceFile
VARIABLE l
Trace == ndJsonDeserialize(TraceFile)
E == Trace[l]
Report_(kind, name) == PrintT(<<kind, name, l>>)
Chk(name, F) == IF F THEN TRUE ELSE Report_("VIOL", name)
NT(name, F) == IF F THEN Report_("NT", name) ELSE TRUE
Obs(e) == [f \in (DOMAIN e) \ {"x", "post"} |-> e[f]]
TStep == /\ E.a \in {"tx", "block"} /\ l' = l + 1
         /\ IF "A" \in DOMAIN E
            THEN /\ Chk("C06_Same", Obs(E.A) = Obs(E.B))
                 /\ NT("C06", TRUE)
            ELSE /\ Chk("C05_NoPanic", E.a = "block" => ~E.panic)
                 /\ NT("C05", E.a = "block")
TReset == E.a = "reset" /\ l' = l + 1
TInit == l = 1
TNext == l <= Len(Trace) /\ (TStep \/ TReset)
TSpec == TInit /\ [][TNext]_l
HW == TLCSet(1, IF TLCGet(1) < l THEN l ELSE TLCGet(1))
ASSUME TLCSet(1, 0)
Accepted == IF TLCGet(1) = Len(Trace) + 1 THEN PrintT(<<"ACCEPTED", Len(Trace)>>)
            ELSE PrintT(<<"REJECTED_AT", TLCGet(1)>>)
=============================================================================

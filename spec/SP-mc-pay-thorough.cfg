CONSTANTS
  Payers = {"a", "b"} Others = {"r"} MAXH = 5
  FIX = {"ref", "space", "gaugeid", "sizes"}
  Slots = {"g1", "g2", "g3"} Quotes = {101} Units = {1000} Days = {30, 400} SzsPos = {} SzsNeg = {} Mps = {} Dts = {0, 240}
  PREF = 25 PPOL = 40 PCW = 2 PIW = 2 FUND = 250 H0 = 2 Ratios = {} MaxFiles = 0
INIT Init
NEXT NextPay
VIEW View
INVARIANTS TypeOK
PROPERTIES PC04 PC12
CHECK_DEADLOCK FALSE

CONSTANTS Acc = {"a", "b", "c"} Vals = {"v1"} Names = {"n1"} Merkles = {"m1"} MAXH = 1
  Parts = {"notif"}
INIT Init
NEXT Next
VIEW View
PROPERTY PC11
CHECK_DEADLOCK FALSE

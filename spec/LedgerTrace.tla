---------------------------- MODULE LedgerTrace ----------------------------
(* Validation of recorded ABCI executions of the assembled application against Ledger.          *)
(* Every line carries the ledger projection taken from the real application state after the     *)
(* step (post.lg). For each line TLC takes the logged projection as the next state, evaluates    *)
(* the Ledger action that corresponds to the message type on (pre, logged amounts, logged post)  *)
(* -- mismatch = DRIFT -- and the LG_* property formulas on the real step -- failure = VIOL.      *)
(* "big" projections (numbers outside TLC's integers, whale histories) suspend the ledger until  *)
(* the next reset.                                                                              *)
EXTENDS Ledger, Sequences, Json
CONSTANTS TraceFile
VARIABLES l, live,
          auth    \* observation only: account -> [num, seq] of the labelled user accounts
Trace == ndJsonDeserialize(TraceFile)
E == Trace[l]
P == E.post
Report_(kind, name) == PrintT(<<kind, name, l>>)
Chk(name, F) == IF F THEN TRUE ELSE Report_("VIOL", name)
NT(name, F) == IF F THEN Report_("NT", name) ELSE TRUE
BIGE == 2000000000

Logged == /\ bal' = P.bal /\ bids' = P.bids /\ coll' = P.coll /\ supply' = P.supply
D(c, d) == P.bal[c][d] - bal[c][d]
DB(d) == P.bids[d] - bids[d]
Changed(d) == \E c \in Classes : D(c, d) # 0
Url(s) == "t" \in DOMAIN E /\ E.t = "/canine_chain." \o s
\* the Ledger action of this step (by message type), with its amounts read off the logged projection
Kind ==
  IF E.a = "block" THEN "block"
  ELSE IF ~E.ok THEN "fail"
  ELSE IF Url("rns.MsgBid") THEN "bid"
  ELSE IF Url("rns.MsgCancelBid") THEN "cancel"
  ELSE IF Url("rns.MsgAcceptBid") THEN "accept"
  ELSE IF Url("rns.MsgRegisterName") \/ Url("rns.MsgRegister") THEN "register"
  ELSE IF Url("oracle.MsgCreateFeed") THEN "feed"
  ELSE IF Url("storage.MsgInitProvider") THEN "initprovider"
  ELSE IF Url("storage.MsgShutdownProvider") THEN "shutdown"
  ELSE IF (Url("storage.MsgBuyStorage") \/ Url("storage.MsgPostFile")) /\ \E d \in Denoms : Changed(d) THEN "pay"
  ELSE "internal"
SpecAct(k) ==
  CASE k = "block" -> Block(P.supply[MintDenom] - supply[MintDenom], D("other", MintDenom), D("mint", MintDenom),
                            [d \in Denoms |-> -D("gauges", d)], [d \in Denoms |-> D("stor", d)])
    [] k = "fail" -> FailedTx
    [] k = "bid" -> LET od == IF \E d \in Denoms \ {E.den} : DB(d) < 0 THEN CHOOSE d \in Denoms \ {E.den} : DB(d) < 0 ELSE E.den
                    IN Bid(E.den, E.amt, od, IF od = E.den THEN E.amt - DB(E.den) ELSE -DB(od))
    [] k = "cancel" -> \E d \in Denoms : DB(d) < 0 /\ CancelBid(d, -DB(d))
    [] k = "accept" -> \E d \in Denoms : DB(d) < 0 /\ AcceptBid(d, -DB(d))
    [] k = "register" -> Register(D("pol", MintDenom))
    [] k = "feed" -> FeedDeposit(D("other", MintDenom))
    [] k = "initprovider" -> InitProvider(P.coll - coll)
    [] k = "shutdown" -> Shutdown(coll - P.coll)
    [] k = "pay" -> \E d \in Denoms : Changed(d) /\ Pay(d, D("gauges", d), D("pol", d), D("other", d), D("stor", d))
    [] OTHER -> Internal
Props ==
  /\ Chk("LG_Conserve", LG_Conserve) /\ Chk("LG_RnsBacked", LG_RnsBacked') /\ Chk("LG_CollBacked", LG_CollBacked')
  /\ Chk("LG_MintOut", LG_MintOut) /\ Chk("LG_NonNeg", LG_NonNeg') /\ Chk("LG_Supply", LG_Supply) /\ Chk("LG_FailFree", LG_FailFree)
  /\ Chk("LG_StorKeeps", LG_StorKeeps) /\ Chk("LG_GaugeHold", LG_GaugeHold)
  /\ Chk("LG_Plans", PlansSound({P.plans[i] : i \in DOMAIN P.plans}))
  /\ Chk("LG_Files", FilesSound(P.files))
  /\ Chk("LG_Auth", AuthStable(auth, P.auth, IF "signer" \in DOMAIN E THEN E.signer ELSE "none"))
  \* non-trivial steps per property clause
  /\ NT("LG_C03", E.a = "block" /\ \E d \in Denoms : D("gauges", d) < 0)
  /\ NT("LG_C04", Kind = "pay" \/ (~(E.a = "block") /\ ~E.ok /\ (Url("storage.MsgBuyStorage") \/ Url("storage.MsgPostFile"))))
  /\ NT("LG_C09", Kind \in {"bid", "cancel", "accept"})
  /\ NT("LG_C12", \E d \in Denoms : D("gauges", d) # 0)
  /\ NT("LG_C13", E.a = "block")
  /\ NT("LG_C15", Kind \in {"initprovider", "shutdown"})
  /\ NT("LG_C16", Url("rns.MsgRegisterName") \/ Url("rns.MsgRegister"))
  /\ NT("LG_C11", E.a = "tx" /\ E.ok)
  /\ NT("LG_C17", E.a = "block" \/ (E.ok /\ (Url("storage.MsgPostFile") \/ Url("storage.MsgDeleteFile") \/ Url("storage.MsgPostProof") \/ Url("storage.MsgReport"))))
  /\ NT("LG_C07", E.a = "block" \/ (E.ok /\ (Url("storage.MsgPostFile") \/ Url("storage.MsgDeleteFile") \/ Url("storage.MsgBuyStorage"))))

TStep == /\ E.a \in {"tx", "block"} /\ l' = l + 1
         /\ Chk("LG_MintSplit", (E.a = "block" /\ E.ok) => SplitExact(P.split))   \* also in "big" histories
         /\ Chk("LG_CollExact", CollExact(P.split))
         /\ IF live /\ ~P.big
            THEN /\ Logged /\ live' = TRUE /\ auth' = P.auth
                 /\ emission' = IF E.a = "block" THEN P.supply[MintDenom] - supply[MintDenom] ELSE emission
                 /\ last' = Lbl(Kind, E.a = "block" \/ E.ok)
                 /\ (IF SpecAct(Kind) THEN TRUE ELSE Report_("DRIFT", Kind))
                 /\ Props
            ELSE /\ UNCHANGED <<bal, bids, coll, supply, emission, last, auth>> /\ live' = FALSE
TReset == /\ E.a = "reset" /\ l' = l + 1 /\ live' = ~P.big
          /\ IF P.big THEN UNCHANGED <<bal, bids, coll, supply, auth>> ELSE (Logged /\ auth' = P.auth)
          /\ emission' = BIGE /\ last' = [a |-> "reset", ok |-> TRUE]
Z == [d \in Denoms |-> 0]
TInit == /\ l = 1 /\ live = FALSE /\ bal = [c \in Classes |-> Z] /\ bids = Z /\ coll = 0 /\ supply = Z
         /\ emission = BIGE /\ last = [a |-> "init", ok |-> TRUE] /\ auth = <<>>
TNext == l <= Len(Trace) /\ (TStep \/ TReset)
TSpec == TInit /\ [][TNext]_<<vars, last, l, live, auth>>
HW == TLCSet(1, IF TLCGet(1) < l THEN l ELSE TLCGet(1))
ASSUME TLCSet(1, 0)
Accepted == IF TLCGet(1) = Len(Trace) + 1 THEN PrintT(<<"ACCEPTED", Len(Trace)>>)
            ELSE PrintT(<<"REJECTED_AT", TLCGet(1)>>)
=============================================================================

CONSTANTS Alphabet = {"a", "b", "/"} L = 6
SPECIFICATION Spec

------------------------------- MODULE Ledger -------------------------------
(* The token ledger of the assembled application: which account classes every custom handler and   *)
(* every begin-block routine moves tokens between. One action per handler that moves tokens:       *)
(*   x/rns      : Bid (escrow in, previous bid of the same bidder out), CancelBid, AcceptBid,       *)
(*                Register (user -> module -> POL), Buy (user -> module -> seller: Internal)       *)
(*   x/storage  : InitProvider / ShutdownProvider (collateral account), BuyStorage and a paid      *)
(*                PostFile (user -> module -> gauge account + POL + referrer), reward block         *)
(*                (gauge accounts -> module -> provers; truncation dust stays in the module)        *)
(*   x/jklmint  : BlockMint (supply grows by the emission, which is handed out completely)         *)
(* FailedTx (a transaction that returns a non-zero code moves nothing: fees are zero here) and      *)
(* Internal (a successful message that moves tokens only between accounts of one class).           *)
(* Classes: "users" (all externally owned accounts), "pol", "gauges" (all gauge escrow accounts),   *)
(* "stor" (storage module), "collm" (collateral module account), "rns", "mint", "other".            *)
(* Obligations recorded in module state: bids (sum of open bids), coll (sum of collateral records). *)
(* This is the whole-application counterpart of the per-module families: C04 / C09 / C12 / C13 /    *)
(* C15 / C16 each have a token-flow clause that must also hold under arbitrary interleavings of     *)
(* ALL modules' messages delivered through the real ante handler and the ABCI block loop.           *)
EXTENDS Integers, FiniteSets, TLC
CONSTANTS Denoms,   \* denominations followed; MintDenom is minted and is the collateral denomination
          MintDenom,
          FIX       \* design rules in force; dropping one injects a design error for the vacuity guard:
                    \* "refund" (a replaced bid is refunded), "passfee" (registration fee leaves the rns module),
                    \* "fullmint" (the whole emission is handed out)
VARIABLES bal,      \* class -> denom -> amount
          bids,     \* denom -> sum of open bids
          coll,     \* sum of collateral records (MintDenom)
          supply,   \* denom -> total supply
          emission, \* tokens minted by the last block boundary
          last
vars == <<bal, bids, coll, supply, emission>>
Classes == {"users", "pol", "gauges", "stor", "collm", "rns", "mint", "other"}
Bug(x) == x \notin FIX
Move(b, from, to, d, x) == [b EXCEPT ![from][d] = @ - x, ![to][d] = @ + x]
Lbl(m, ok) == [a |-> IF m = "block" THEN "block" ELSE "tx", m |-> m, ok |-> ok]   \* a: step class, m: handler

Bid(d, x, od, old) ==    \* new bid x in d; the bidder's previous bid on that name (old in od, 0 = none) is refunded
  LET back == IF Bug("refund") THEN 0 ELSE old
      b1 == Move(bal, "rns", "users", od, back) IN
  /\ x >= 0 /\ old >= 0 /\ old <= bids[od]   \* (the chain accepts a bid of zero tokens)
  /\ bal' = Move(b1, "users", "rns", d, x)
  /\ bids' = [dd \in Denoms |-> bids[dd] - (IF dd = od THEN old ELSE 0) + (IF dd = d THEN x ELSE 0)]
  /\ UNCHANGED <<coll, supply, emission>> /\ last' = Lbl("bid", TRUE)
CancelBid(d, x) ==
  /\ x > 0 /\ x <= bids[d] /\ bal' = Move(bal, "rns", "users", d, x) /\ bids' = [bids EXCEPT ![d] = @ - x]
  /\ UNCHANGED <<coll, supply, emission>> /\ last' = Lbl("cancel", TRUE)
AcceptBid(d, x) ==   \* the escrowed amount goes to the name's owner (a user)
  /\ x > 0 /\ x <= bids[d] /\ bal' = Move(bal, "rns", "users", d, x) /\ bids' = [bids EXCEPT ![d] = @ - x]
  /\ UNCHANGED <<coll, supply, emission>> /\ last' = Lbl("accept", TRUE)
Register(c) ==    \* user -> rns module -> POL in one handler
  /\ c > 0
  /\ bal' = IF Bug("passfee") THEN Move(bal, "users", "rns", MintDenom, c) ELSE Move(bal, "users", "pol", MintDenom, c)
  /\ UNCHANGED <<bids, coll, supply, emission>> /\ last' = Lbl("register", TRUE)
InitProvider(c) ==
  /\ c >= 0 /\ bal' = Move(bal, "users", "collm", MintDenom, c) /\ coll' = coll + c
  /\ UNCHANGED <<bids, supply, emission>> /\ last' = Lbl("initprovider", TRUE)
Shutdown(c) ==
  /\ c >= 0 /\ c <= coll /\ bal' = Move(bal, "collm", "users", MintDenom, c) /\ coll' = coll - c
  /\ UNCHANGED <<bids, supply, emission>> /\ last' = Lbl("shutdown", TRUE)
\* BuyStorage / paid PostFile: g to a new gauge account, p to POL, o to the stakers' fee pool (no referrer; the
\* referrer's part otherwise stays within "users"), keep = what remains in the storage module (rounding, discount)
Pay(d, g, p, o, keep) ==
  /\ g >= 0 /\ p >= 0 /\ o >= 0 /\ keep >= 0 /\ g + p + o + keep > 0
  /\ bal' = Move(Move(Move(Move(bal, "users", "gauges", d, g), "users", "pol", d, p), "users", "other", d, o), "users", "stor", d, keep)
  /\ UNCHANGED <<bids, coll, supply, emission>> /\ last' = Lbl("pay", TRUE)
FailedTx == UNCHANGED vars /\ last' = Lbl("fail", FALSE)
Internal == UNCHANGED vars /\ last' = Lbl("internal", TRUE)
FeedDeposit(c) ==   \* oracle CreateFeed: the creation deposit goes to the deposit account named in the oracle params
  /\ c >= 0 /\ bal' = Move(bal, "users", "other", MintDenom, c)
  /\ UNCHANGED <<bids, coll, supply, emission>> /\ last' = Lbl("feed", TRUE)
\* block boundary: mint e (not above the previous emission) and hand it out (toOther to staking / distribution /
\* team accounts, the rest to users) except the truncation remainder dm of the percentage split, which stays in the
\* mint module; the gauges release r[d], of which dust[d] stays in the storage module
MintDust == 2   \* C13: "fewer than three base units per block"
Block(e, toOther, dm, r, dust) ==
  LET keep == IF Bug("fullmint") THEN e ELSE dm   \* design error: nothing of the emission is handed out
      out  == e - keep IN
  /\ e >= 0 /\ e <= emission /\ dm >= 0 /\ dm <= MintDust /\ dm <= e /\ toOther >= 0 /\ toOther <= out
  /\ \A d \in Denoms : r[d] >= 0 /\ r[d] <= bal["gauges"][d] /\ dust[d] >= 0 /\ dust[d] <= r[d]
  /\ supply' = [supply EXCEPT ![MintDenom] = @ + e] /\ emission' = e
  /\ bal' = [c \in Classes |-> [d \in Denoms |->
               CASE c = "gauges" -> bal[c][d] - r[d]
                 [] c = "stor"   -> bal[c][d] + dust[d]
                 [] c = "users"  -> bal[c][d] + (r[d] - dust[d]) + (IF d = MintDenom THEN out - toOther ELSE 0)
                 [] c = "other"  -> bal[c][d] + (IF d = MintDenom THEN toOther ELSE 0)
                 [] c = "mint"   -> bal[c][d] + (IF d = MintDenom THEN keep ELSE 0)
                 [] OTHER -> bal[c][d]]]
  /\ UNCHANGED <<bids, coll>> /\ last' = Lbl("block", TRUE)

Total(b, d) == b["users"][d] + b["pol"][d] + b["gauges"][d] + b["stor"][d] + b["collm"][d] + b["rns"][d] + b["mint"][d] + b["other"][d]
\* ---- properties (state invariants and a step formula; the trace spec evaluates the same ones on real steps)
\* (users' funds are the bank module's concern: the actions carry no affordability guard; MCLedger bounds users by a constraint)
LG_Conserve    == \A d \in Denoms : Total(bal', d) - Total(bal, d) = supply'[d] - supply[d]   \* step form: tokens only appear by minting
LG_RnsBacked   == \A d \in Denoms : bal["rns"][d] = bids[d]       \* C09: escrow equals the open bids, nothing else rests there
LG_CollBacked  == bal["collm"][MintDenom] = coll                  \* C15: the collateral account holds exactly the recorded collateral
\* C13: every minted token is handed out in its block, up to the truncation remainder of the percentage split
LG_MintOut     == /\ \A d \in Denoms : bal'["mint"][d] >= bal["mint"][d] /\ bal'["mint"][d] - bal["mint"][d] <= MintDust
                  /\ (last'.a # "block") => bal'["mint"] = bal["mint"]
LG_NonNeg      == \A c \in {"gauges", "stor", "collm", "rns", "mint"} : \A d \in Denoms : bal[c][d] >= 0
LG_Supply == /\ \A d \in Denoms : supply'[d] >= supply[d]                     \* nothing is ever burned by the custom modules
             /\ (last'.a # "block") => supply' = supply                        \* only a block boundary mints
             /\ \A d \in Denoms \ {MintDenom} : supply'[d] = supply[d]         \* and only MintDenom
             /\ emission' <= emission                                          \* C13: non-increasing
             /\ (last'.a = "block") => supply'[MintDenom] - supply[MintDenom] = emission'
\* a failed transaction moves nothing (C04, C16: "a failed one costs nothing")
LG_FailFree == (last'.a = "tx" /\ ~last'.ok) => bal' = bal /\ bids' = bids /\ coll' = coll
\* the storage module never pays out more than it takes in within one step: purchases leave their remainder in it
\* (C04: credits never exceed the debit), a reward block pays at most what the gauges released (C03)
LG_StorKeeps == \A d \in Denoms : bal'["stor"][d] >= bal["stor"][d]
\* gauge accounts are only drawn from at block boundaries (C12)
LG_GaugeHold == (last'.a # "block") => \A d \in Denoms : bal'["gauges"][d] >= bal["gauges"][d]
\* Auth records (x/auth accounts of the users): part of "touches only its own resources" (C11). An account number never
\* changes once assigned and a sequence number advances only by one, and only for the signer of the transaction
\* (authp / authq: account -> [num, seq] before and after the step; num = -1: no account yet).
AuthStable(authp, authq, signer) ==
  \A a \in DOMAIN authp :
     /\ a \in DOMAIN authq
     /\ (authp[a].num >= 0) => (authq[a].num = authp[a].num)
     /\ \/ authq[a].seq = authp[a].seq
        \/ (a = signer /\ authq[a].seq = authp[a].seq + 1)
\* Storage plans (C07 at whole-application level, any size up to MaxInt64): plans = set of per-plan observations
\* [owner, neg (space used negative), fits (used <= bought), eq (used = footprint of the owner's live plan-paid files)]
PlansSound(plans) == \A p \in plans : ~p.neg /\ p.fits /\ p.eq
\* Split of the emission (C13), evaluated on residuals computed with big integers by the harness, so that emissions anywhere in
\* the int64 range are covered: each recipient got exactly floor(emission * percentage / 100), the mint module kept less than 3
SplitExact(sp) == sp.rs = 0 /\ sp.rd = 0 /\ sp.rp = 0 /\ sp.rem >= 0 /\ sp.rem <= MintDust
\* the same for the collateral account (C15): balance minus the sum of the records, computed with big integers (prices above 2^31)
CollExact(sp) == sp.collres = 0
\* Stored files (C17 at whole-application level): the harness lists, per step, what is wrong with any stored file -- a listed
\* prover key without proof record ("norecord"), a key listed twice ("dup"), more provers than the replication limit ("over"),
\* the two file indexes disagreeing ("index"); creators are sent in lower- and upper-case spellings
FilesSound(problems) == problems = <<>>
LG_Step == LG_Supply /\ LG_FailFree /\ LG_StorKeeps /\ LG_GaugeHold
=============================================================================

------------------------------ MODULE MPTrace ------------------------------
EXTENDS MP, Json
CONSTANTS TraceFile
VARIABLES l, d2s, s2d
Trace == ndJsonDeserialize(TraceFile)
E == Trace[l]
Report_(kind, name) == PrintT(<<kind, name, l>>)
Chk(name, F) == IF F THEN TRUE ELSE Report_("VIOL", name)
NT(name, F) == IF F THEN Report_("NT", name) ELSE TRUE
Put(f, k, v) == [y \in (DOMAIN f) \cup {k} |-> IF y = k THEN v ELSE f[y]]
\* last separator position (0 if none)
LastSep(s) == IF \A i \in DOMAIN s : s[i] # SEP THEN 0 ELSE CHOOSE i \in DOMAIN s : s[i] = SEP /\ \A j \in (i + 1)..Len(s) : s[j] # SEP
TStep == /\ E.a = "mp" /\ l' = l + 1
         /\ LET s == E.str  v == MPath(s)  i == LastSep(s) IN
            /\ d2s' = Put(d2s, E.d, v) /\ s2d' = Put(s2d, v, E.d)
            \* same digest <=> same symbolic address (injectivity and functionality of the real code)
            /\ Chk("C20_Partition", (E.d \in DOMAIN d2s => d2s[E.d] = v) /\ (v \in DOMAIN s2d => s2d[v] = E.d))
            \* parent/child: AddToMerkle(MerklePath(parent), sha256(child)) = MerklePath(parent/child)
            /\ Chk("C20_ParentChild",
                   (i > 0 /\ i < Len(s) /\ ~EndsSep(SubSeq(s, 1, i - 1))) => E.ad = E.d)
            /\ NT("C20", i > 0)
\* the address answered by posting root -> child -> grandchild equals MerklePath of the plain path
TPost == /\ E.a = "postpath" /\ l' = l + 1 /\ UNCHANGED <<d2s, s2d>>
         /\ Chk("C20_PostPath", E.got = E.want)
         /\ NT("C20", TRUE)
TReset == /\ E.a = "reset" /\ l' = l + 1 /\ d2s' = <<>> /\ s2d' = <<>>
TInit == l = 1 /\ d2s = <<>> /\ s2d = <<>>
TNext == l <= Len(Trace) /\ (TStep \/ TPost \/ TReset)
TSpec == TInit /\ [][TNext]_<<l, d2s, s2d>>
HW == TLCSet(1, IF TLCGet(1) < l THEN l ELSE TLCGet(1))
ASSUME TLCSet(1, 0)
Accepted == IF TLCGet(1) = Len(Trace) + 1 THEN PrintT(<<"ACCEPTED", Len(Trace)>>)
            ELSE PrintT(<<"REJECTED_AT", TLCGet(1)>>)
=============================================================================

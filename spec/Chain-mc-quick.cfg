CONSTANTS
  SizeDom <- MCSizeDom RepDom <- MCRepDom SizesPos = {1, 2, 127} SizesNeg = {1, 2} Provers = {"p1", "p2"} MAXH = 5 CW = 2
  FIX = {"sizes"}
INIT Init
NEXT Next
INVARIANT C05_NoHalt
CHECK_DEADLOCK FALSE

------------------------------ MODULE SimRns ------------------------------
(* Behaviour generation from the Rns model: history of labels, printed as JSON. *)
EXTENDS MCRns
CONSTANT D
VARIABLE hist
\* ---- behaviour generation (simulation): history of labels, printed at depth D ----
SimInit == Init /\ hist = <<>>
End == UNCHANGED vars /\ last' = [a |-> "end", ok |-> TRUE] /\ hist' = hist
SimNext == IF Len(hist) >= D THEN End
           ELSE /\ Next
                /\ hist' = Append(hist, last')
                /\ (last'.ok \/ RandomElement(1..4) = 1)     \* thin out refused steps
SimSpec == SimInit /\ [][SimNext]_<<vars, last, hist>>
Emit == last.a # "end" \/ PrintT(<<"SCN", ToJson(hist)>>)
\* exhaustive enumeration of all behaviours up to depth D (hist is part of the state)
EnumNext == /\ Len(hist) < D /\ (Len(hist) = 0 \/ hist[Len(hist)].ok)   \* a refused step is a leaf
            /\ Next /\ hist' = Append(hist, last')
EnumSpec == SimInit /\ [][EnumNext]_<<vars, last, hist>>
Leaf == Len(hist) = D \/ (Len(hist) > 0 /\ ~hist[Len(hist)].ok)
EmitLeaf == ~Leaf \/ PrintT(<<"SCN", ToJson(hist)>>)
=============================================================================

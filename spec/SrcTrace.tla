------------------------------ MODULE SrcTrace ------------------------------
(* Assumption check behind C06 (and behind every family's use of block time): the state machine's only time        *)
(* source is the block header and its only randomness comes from generators seeded with chain data. The harness    *)
(* parses every non-test, non-generated source file of the modules (x/, wasmbinding/, types/, app/ without CLI,    *)
(* simulation and upgrade code) and logs, per file, the references to wall-clock functions (time.Now, Since,        *)
(* Until, After, Tick, Sleep, timers) and to process-global or OS randomness (math/rand package-level functions,    *)
(* crypto/rand), except inside arguments of telemetry calls. Allowed == {}: any reference is a violation, because   *)
(* two executions of one history agree on such a value only by the accident of running within the same second.      *)
EXTENDS Integers, Sequences, TLC, Json
CONSTANTS TraceFile
VARIABLE l
Trace == ndJsonDeserialize(TraceFile)
E == Trace[l]
Report_(kind, name) == PrintT(<<kind, name, l>>)
Chk(name, F) == IF F THEN TRUE ELSE Report_("VIOL", name)
NT(name, F) == IF F THEN Report_("NT", name) ELSE TRUE
Allowed == {}
Refs(e) == {e.bad[i] : i \in DOMAIN e.bad}
C06_TimeSource == (E.a = "src") => Refs(E) \subseteq Allowed
TStep == /\ E.a = "src" /\ l' = l + 1 /\ Chk("C06_TimeSource", C06_TimeSource) /\ NT("C06src", TRUE)
TReset == E.a = "reset" /\ l' = l + 1
TInit == l = 1
TNext == l <= Len(Trace) /\ (TStep \/ TReset)
TSpec == TInit /\ [][TNext]_l
HW == TLCSet(1, IF TLCGet(1) < l THEN l ELSE TLCGet(1))
ASSUME TLCSet(1, 0)
Accepted == IF TLCGet(1) = Len(Trace) + 1 THEN PrintT(<<"ACCEPTED", Len(Trace)>>)
            ELSE PrintT(<<"REJECTED_AT", TLCGet(1)>>)
=============================================================================

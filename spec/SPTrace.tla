------------------------------ MODULE SPTrace ------------------------------
(* Trace validation of recorded executions of the real x/storage payments against SP. *)
EXTENDS SP, Json
CONSTANTS TraceFile
VARIABLE l
Trace == ndJsonDeserialize(TraceFile)
tvars == <<vars, ghosts, last, l>>
E == Trace[l]

R(q) == {q[i] : i \in DOMAIN q}
LFiles(q) == [k \in {r.id : r \in R(q)} |->
               LET r == CHOOSE r \in R(q) : r.id = k IN
               [owner |-> r.owner, size |-> r.size, maxp |-> r.maxp, plan |-> r.plan, start |-> r.start, interval |-> r.interval]]
LoggedPost(p) ==
  /\ plans' = p.plans /\ files' = LFiles(p.files) /\ gauges' = p.gauges
  /\ bal' = p.bal /\ now' = p.now /\ height' = p.height /\ par' = p.par
Lbl(e) == [f \in (DOMAIN e) \ {"post", "x", "nexp", "den"} |-> e[f]]

Special == {MODS, POL, FEES, "other"}
ObsGone == (DOMAIN files) \ (DOMAIN files')
ObsOut  == [g \in DOMAIN gauges |-> bal[g] - bal'[g]]
ObsPay  == [p \in {a \in DOMAIN bal : a \notin Special /\ a \notin DOMAIN gauges /\ a \notin DOMAIN dep} |-> bal'[p] - bal[p]]
SpecAct(e) ==
  CASE e.a = "buy"        -> BuyStorage(e.s, e.for, e.units, e.days, e.ref, e.quote, e.x.gid)
    [] e.a = "postfile"   -> PostFile(e.s, e.m, e.sz, e.mp, e.pay, e.days, e.quote, e.x.gid)
    [] e.a = "deletefile" -> DeleteFile(e.s, e.m, e.st)
    [] e.a = "postproof"  -> PostProof(e.s, e.f)
    [] e.a = "setratios"  -> SetRatios(e.ref, e.pol)
    [] e.a = "mkgauge"    -> MkGauge(e.x.gid, e.amt, e.days)
    [] e.a = "block"      -> IF e.ok THEN Block(e.dt, ObsGone, ObsOut, ObsPay) ELSE BlockPanic(e.dt)

Report_(kind, name) == PrintT(<<kind, name, l>>)
Chk(name, F) == IF F THEN TRUE ELSE Report_("VIOL", name)
NT(name, F) == IF F THEN Report_("NT", name) ELSE TRUE

NT04 == last'.a = "buy" \/ (last'.a = "postfile" /\ last'.pay = "once")
NT07 == (last'.a \in {"postfile", "deletefile"} /\ plans # <<>>) \/ (last'.a = "block" /\ ObsGone # {})
NT12 == last'.a = "block" /\ last'.ok /\ last'.reward /\ \E g \in DOMAIN gauges : bal[g] > 0

\* In "fine" recordings block times have sub-hour offsets: the hour-tick arithmetic of the detailed model does not apply, only the
\* exact release check below is evaluated (the harness computes floor(deposited * elapsed_us / total_us) with big integers).
Fine == "fine" \in DOMAIN E.post /\ E.post.fine
C12_Exact ==
  (last'.a = "block" /\ last'.ok) =>
     \A g \in DOMAIN gauges :
        IF last'.reward /\ g \in DOMAIN E.x.exp
        THEN (IF E.x.exp[g] - rel'[g] < 0 THEN rel'[g] - E.x.exp[g] ELSE E.x.exp[g] - rel'[g]) <= 1 /\ rel'[g] <= dep[g]
        ELSE bal'[g] = bal[g]
C12_Mono == \A g \in DOMAIN rel' : rel'[g] <= dep'[g] /\ (g \in DOMAIN rel => rel'[g] >= rel[g])
PropsFine == /\ Chk("C12_Exact", C12_Exact) /\ Chk("C12_Gauges", C12_Mono) /\ NT("C12", NT12)
Props ==
  /\ Chk("C12_Exact", C12_Exact)
  /\ Chk("C04_Buy", C04_Buy) /\ Chk("C04_PayOnce", C04_PayOnce) /\ Chk("C04_Other", C04_Other)
  /\ Chk("C07_Used", C07_Used => C07_Used') /\ Chk("C07_Reject", C07_Reject)
  /\ Chk("C12_Gauges", C12_Gauges)
  /\ Chk("TypeOK", TypeOK')
  /\ NT("C04", NT04) /\ NT("C07", NT07) /\ NT("C12", NT12)

TStep == /\ E.a # "reset"
         /\ l' = l + 1
         /\ LoggedPost(E.post) /\ last' = Lbl(E)
         /\ GhostNext
         /\ IF Fine THEN PropsFine
            ELSE (IF SpecAct(E) THEN TRUE ELSE Report_("DRIFT", E.a)) /\ Props
TReset == /\ E.a = "reset" /\ l' = l + 1
          /\ LoggedPost(E.post) /\ last' = [a |-> "reset", ok |-> TRUE]
          /\ dep' = <<>> /\ rel' = <<>>
TInit == /\ l = 1 /\ plans = <<>> /\ files = <<>> /\ gauges = <<>> /\ bal = <<>> /\ now = 0 /\ height = 0 /\ par = <<>>
         /\ dep = <<>> /\ rel = <<>> /\ last = [a |-> "init", ok |-> TRUE]
TNext == l <= Len(Trace) /\ (TStep \/ TReset)
TSpec == TInit /\ [][TNext]_tvars

HW == TLCSet(1, IF TLCGet(1) < l THEN l ELSE TLCGet(1))
ASSUME TLCSet(1, 0)
Accepted == IF TLCGet(1) = Len(Trace) + 1 THEN PrintT(<<"ACCEPTED", Len(Trace)>>)
            ELSE PrintT(<<"REJECTED_AT", TLCGet(1)>>)
=============================================================================

CONSTANTS
  MAXH = 100
  FIX = {"clamp"}
  Tpbs = {0, 1, 5, 12} Decs = {0, 1, 5255999, 5256000, 10512001} RatioVals = {0, 1, 33, 50, 80, 100}
  D = 14
INIT Init
NEXT EnumNext
INVARIANT EmitLeaf
CHECK_DEADLOCK FALSE

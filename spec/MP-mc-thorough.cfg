CONSTANTS Alphabet = {"a", "b", "/"} L = 7
SPECIFICATION Spec

------------------------------ MODULE MCLedger ------------------------------
EXTENDS Ledger
CONSTANTS MaxAmt, Start, E0, MaxSupply
Amt == 0..MaxAmt
Z == [d \in Denoms |-> 0]
Init == /\ bal = [c \in Classes |-> [d \in Denoms |-> IF c = "users" THEN Start ELSE 0]]
        /\ bids = Z /\ coll = 0 /\ supply = [d \in Denoms |-> Start] /\ emission = E0 /\ last = [a |-> "init", ok |-> TRUE]
Next == \/ \E d \in Denoms, od \in Denoms, x \in Amt, old \in Amt : Bid(d, x, od, old)
        \/ \E d \in Denoms, x \in Amt : CancelBid(d, x) \/ AcceptBid(d, x)
        \/ \E x \in Amt : Register(x) \/ InitProvider(x) \/ Shutdown(x)
        \/ \E d \in Denoms, g \in Amt, p \in Amt, o \in 0..1, k \in 0..1 : Pay(d, g, p, o, k)
        \/ FailedTx \/ Internal
        \/ \E x \in Amt : FeedDeposit(x)
        \/ \E e \in 0..E0, o \in 0..E0, dm \in 0..1, r \in [Denoms -> Amt], dd \in [Denoms -> Amt] :
              supply[MintDenom] + e <= MaxSupply /\ Block(e, o, dm, r, dd)
View == vars
Solvent == \A d \in Denoms : bal["users"][d] >= 0   \* CONSTRAINT: the bank refuses overdrafts
Conserved == \A d \in Denoms : Total(bal, d) = supply[d]
PStep == [][LG_Step /\ LG_MintOut /\ LG_Conserve]_<<vars, last>>
=============================================================================

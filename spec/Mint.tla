------------------------------- MODULE Mint -------------------------------
(* Block emission (x/jklmint): keeper/mint.go BlockMint, utils/mint.go GetMintForBlock. *)
(* Property decided here: C13.                                                            *)
EXTENDS Integers, TLC
CONSTANTS MAXH,
          FIX   \* repaired deviations: subset of {"clamp"}
VARIABLES prev,    \* emission recorded for the current height (-1: none)
          par,     \* [tpb, dec, sr, dr, pr]
          bal,     \* stakers (fee collector + distribution), dev, stipend, m:jklmint, other
          supply, height, halted, last
vars == <<prev, par, bal, supply, height, halted>>
Fixed(x) == x \in FIX
BPY == 5256000                      \* (365*24*60*60)/6, mint.go
MINT == "m:jklmint"
Pct(x, p) == (x * p) \div 100       \* trunc(ratio/100 * x), exact for integer ratios and x >= 0
Base == IF prev < 0 THEN par.tpb ELSE prev
\* trunc(p - dec/BPY) toward zero
Raw(p) == LET q == par.dec \div BPY  r == par.dec % BPY IN
          IF r = 0 THEN p - q ELSE IF p - q >= 1 THEN p - q - 1 ELSE p - q
\* deviation "clamp": the pinned code lets the emission go negative (NewInt64Coin panics in BeginBlock)
NextMint == IF Fixed("clamp") /\ Raw(Base) < 0 THEN 0 ELSE Raw(Base)

Block ==
  LET m == NextMint
      s == Pct(m, par.sr)  d == Pct(m, par.dr)  p == Pct(m, par.pr) IN
  /\ ~halted /\ height < MAXH
  /\ IF m < 0
     THEN /\ halted' = TRUE /\ UNCHANGED <<prev, par, bal, supply, height>>
          /\ last' = [a |-> "block", ok |-> FALSE]
     ELSE /\ supply' = supply + m
          /\ bal' = [bal EXCEPT !["stakers"] = @ + s, !["dev"] = @ + d, !["stipend"] = @ + p, ![MINT] = @ + m - s - d - p]
          /\ prev' = m /\ height' = height + 1 /\ UNCHANGED <<par, halted>>
          /\ last' = [a |-> "block", ok |-> TRUE]
SetParams(p) ==
  /\ ~halted
  /\ par' = p /\ UNCHANGED <<prev, bal, supply, height, halted>>
  /\ last' = [a |-> "setparams", p |-> p, ok |-> TRUE]

\* ---- C13 ----
Delta(a) == bal'[a] - bal[a]
C13_Step ==
  (last'.a = "block") =>
     /\ last'.ok
     /\ LET m == supply' - supply IN
        /\ prev' = m /\ m >= 0 /\ m <= Base
        /\ Delta("stakers") = Pct(m, par.sr) /\ Delta("dev") = Pct(m, par.dr) /\ Delta("stipend") = Pct(m, par.pr)
        /\ Delta(MINT) = m - Pct(m, par.sr) - Pct(m, par.dr) - Pct(m, par.pr)
        /\ (par.sr + par.dr + par.pr = 100 => Delta(MINT) < 3)
        /\ Delta("other") = 0
C13_Params == (last'.a = "setparams") => (bal' = bal /\ supply' = supply /\ prev' = prev)
TypeOK == \A a \in DOMAIN bal : bal[a] >= 0
=============================================================================

------------------------------ MODULE SDTrace ------------------------------
(* Trace validation of recorded executions of the real x/storage against SD. *)
EXTENDS SD, Json
CONSTANTS TraceFile
VARIABLE l
Trace == ndJsonDeserialize(TraceFile)
tvars == <<vars, ghosts, last, l>>
E == Trace[l]

R(q) == {q[i] : i \in DOMAIN q}
LFiles(q)  == [k \in {r.id : r \in R(q)} |->
                LET r == CHOOSE r \in R(q) : r.id = k IN
                [size |-> r.size, maxp |-> r.maxp, start |-> r.start, interval |-> r.interval, proofs |-> r.proofs]]
LProofs(q) == [k \in {<<r.p, r.id>> : r \in R(q)} |->
                LET r == CHOOSE r \in R(q) : <<r.p, r.id>> = k IN [last |-> r.last, chunk |-> r.chunk]]
LForms(q)  == [k \in {<<r.p, r.id>> : r \in R(q)} |->
                LET r == CHOOSE r \in R(q) : <<r.p, r.id>> = k IN [names |-> r.names, done |-> R(r.done)]]
LoggedPost(p) ==
  /\ files' = LFiles(p.files) /\ filesO' = LFiles(p.filesO) /\ proofs' = LProofs(p.proofs)
  /\ providers' = p.providers /\ collat' = p.collat
  /\ attest' = LForms(p.attest) /\ report' = LForms(p.report)
  /\ bal' = p.bal /\ bal2' = p.bal2 /\ height' = p.height /\ par' = p.par
Lbl(e) == [f \in (DOMAIN e) \ {"post", "x"} |-> e[f]]

ObservedPay == [p \in Users |-> bal'[p] - bal[p]]
ObservedPay2 == [p \in Users |-> bal2'[p] - bal2[p]]
SpecAct(e) ==
  CASE e.a = "postfile"     -> PostFile(e.s, e.m, e.sz, e.mp)
    [] e.a = "deletefile"   -> DeleteFile(e.s, e.m, e.st)
    [] e.a = "postproof"    -> PostProof(e.s, e.f, e.toProve, e.c, e.claim, e.x.nc)
    [] e.a = "initprovider" -> InitProvider(e.s, e.dom)
    [] e.a = "shutdown"     -> Shutdown(e.s)
    [] e.a = "setip"        -> SetIP(e.s, e.dom)
    [] e.a = "setprice"     -> SetPrice(e.v)
    [] e.a = "reqattest"    -> ReqAttest(e.s, e.f, e.names)
    [] e.a = "attest"       -> Attest(e.s, e.p, e.f)
    [] e.a = "reqreport"    -> ReqReport(e.s, e.p, e.f, e.names)
    [] e.a = "report"       -> Report(e.s, e.p, e.f)
    [] e.a = "block"        -> Block(e.rel, ObservedPay, e.rel2, ObservedPay2)

Report_(kind, name) == PrintT(<<kind, name, l>>)
Chk(name, F) == IF F THEN TRUE ELSE Report_("VIOL", name)
NT(name, F) == IF F THEN Report_("NT", name) ELSE TRUE

\* non-triviality of a step per property
NT01 == last'.a = "postproof" /\ ~LGood
NT01p == last'.a = "block" /\ \E p \in Users : bal'[p] > bal[p]
NT02 == last'.a = "block" /\ last'.reward /\ \E x \in PairsOf(files) : x \notin missed' /\ ~Young(files[x[2]], height')
NT03 == last'.a = "block" /\ last'.reward /\ (last'.rel > 0 \/ last'.rel2 > 0) /\ AllListed # {}
NT14 == last'.a \in {"attest", "report"} /\ (<<last'.p, last'.f>> \in DOMAIN attest \/ <<last'.p, last'.f>> \in DOMAIN report)
NT14f == last'.a \in {"reqattest", "reqreport"} /\ last'.ok
NT15 == last'.a \in {"initprovider", "shutdown"} /\ last'.ok
NT17 == files' # files \/ proofs' # proofs

Props ==
  /\ Chk("C01_Listed", C01_Listed => C01_Listed') /\ Chk("C01_NoEffect", C01_NoEffect) /\ Chk("C01_Paid", C01_Paid)
  /\ Chk("C02_ChallengeInRange", C02_ChallengeInRange') /\ Chk("C02_HonestAccepted", C02_HonestAccepted)
  /\ Chk("C02_HonestKept", C02_HonestKept)
  /\ Chk("C03_Reward", C03_Reward)
  /\ Chk("C14_Quorum", C14_Quorum) /\ Chk("C14_FormShape", C14_FormShape)
  /\ Chk("C15_Backed", C15_Backed => C15_Backed') /\ Chk("C15_Step", C15_Step)
  /\ Chk("C17_Indexes", C17_Indexes') /\ Chk("C17_Lists", C17_Lists')
  /\ Chk("C17_Queries", E.x.qbad = <<>>)   \* the public query methods agree with both indexes and the proof records
  /\ Chk("TypeOK", TypeOK')
  /\ NT("C01", NT01 \/ NT01p) /\ NT("C02", NT02) /\ NT("C03", NT03) /\ NT("C14", NT14 \/ NT14f)
  /\ NT("C15", NT15) /\ NT("C17", NT17)

TStep == /\ E.a # "reset"
         /\ l' = l + 1
         /\ LoggedPost(E.post) /\ last' = Lbl(E)
         /\ GhostNext
         /\ (IF SpecAct(E) THEN TRUE ELSE Report_("DRIFT", E.a))
         /\ Props
TReset == /\ E.a = "reset" /\ l' = l + 1
          /\ LoggedPost(E.post) /\ last' = [a |-> "reset", ok |-> TRUE]
          /\ earned' = {} /\ ever' = {} /\ signers' = <<>> /\ missed' = {} /\ pwin' = <<>>
          /\ Chk("C15_Backed", C15_Backed')
TInit == /\ l = 1 /\ files = <<>> /\ filesO = <<>> /\ proofs = <<>> /\ providers = <<>> /\ collat = <<>>
         /\ attest = <<>> /\ report = <<>> /\ bal = <<>> /\ bal2 = <<>> /\ height = 0 /\ par = <<>>
         /\ earned = {} /\ ever = {} /\ signers = <<>> /\ missed = {} /\ pwin = <<>>
         /\ last = [a |-> "init", ok |-> TRUE]
TNext == l <= Len(Trace) /\ (TStep \/ TReset)
TSpec == TInit /\ [][TNext]_tvars

HW == TLCSet(1, IF TLCGet(1) < l THEN l ELSE TLCGet(1))
ASSUME TLCSet(1, 0)
Accepted == IF TLCGet(1) = Len(Trace) + 1 THEN PrintT(<<"ACCEPTED", Len(Trace)>>)
            ELSE PrintT(<<"REJECTED_AT", TLCGet(1)>>)
=============================================================================

------------------------------- MODULE MCFT -------------------------------
EXTENDS FT
CONSTANTS Children, MaxDepth, Tracks, Ws, MaxEntries
Key(addr, owner) == addr \o "/" \o owner \o "/"
Init == entries = <<>> /\ last = [a |-> "init", ok |-> TRUE]
One(id) == [x \in {id} |-> "k"]
Two(id1, id2) == [x \in {id1, id2} |-> "k"]
AccessSets(kind, t, s) == LET id(a) == IF kind = "v" THEN VId(t, a) ELSE EId(t, a) IN
   {One(id(s))} \cup {Two(id(s), id(a)) : a \in Acc \ {s}} \cup {[x \in {"!invalid"} |-> "junk"]}
Depth(addr) == Len(addr)   \* strings: symbolic addresses grow with depth ("s", "s/c", "s/c/c")
Room(k) == k \in DOMAIN entries \/ Cardinality(DOMAIN entries) < MaxEntries
NextProvision == \E s \in Acc, t \in Tracks : \E e \in AccessSets("e", t, s) :
   Room(Key("s", s)) /\ Provision(s, Key("s", s), "s", One(VId(t, s)), e, t)
NextPost == \E s \in Acc, acct \in Acc, p \in DOMAIN entries, c \in Children, t \in Tracks :
   LET paddr == entries[p].addr  caddr == paddr \o "/" \o c IN
   /\ Len(caddr) <= MaxDepth /\ Room(Key(caddr, acct))
   /\ \E e \in AccessSets("e", t, acct) :
        Post(s, Key(paddr, acct), Key(caddr, acct), caddr, acct, One(VId(t, acct)), e, t, "data")
NextDelete == \E s \in Acc, k \in (DOMAIN entries) \cup {"nokey"} : Delete(s, k)
NextChown == \E s \in Acc, k \in DOMAIN entries, n \in Acc : ChangeOwner(s, k, Key(entries[k].addr, n), n)
IdSeqs(kind, t) == LET id(a) == IF kind = "v" THEN VId(t, a) ELSE EId(t, a) IN
   {<<id(a)>> : a \in Acc} \cup {<<"crafted/id">>}
NextAccess == \E s \in Acc, k \in DOMAIN entries, w \in Ws :
   LET t == entries[k].tracking  kind == IF w = "viewers" THEN "v" ELSE "e" IN
   \/ \E ids \in IdSeqs(kind, t) : AddAccess(w, s, k, ids, [i \in DOMAIN ids |-> "k"]) \/ RemoveAccess(w, s, k, ids)
   \/ AddAccess(w, s, k, <<"crafted/id", "x">>, <<"k">>)
   \/ ResetAccess(w, s, k)
Next == NextProvision \/ NextPost \/ NextDelete \/ NextChown \/ NextAccess
View == vars
PC10 == [][C10_Step]_<<vars, last>>
=============================================================================

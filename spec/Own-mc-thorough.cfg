CONSTANTS Acc = {"a", "b"} Vals = {"v1"} Names = {"n1"} Merkles = {"m1"} MAXH = 1
  Parts = {"prov", "feeds", "files", "notif"}
INIT Init
NEXT Next
VIEW View
PROPERTY PC11
CHECK_DEADLOCK FALSE

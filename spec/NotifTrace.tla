----------------------------- MODULE NotifTrace -----------------------------
EXTENDS Notif, Json
CONSTANTS TraceFile
VARIABLE l
Trace == ndJsonDeserialize(TraceFile)
tvars == <<vars, ghosts, last, l>>
E == Trace[l]
R(q) == {q[i] : i \in DOMAIN q}
LoggedPost(p) == /\ inbox' = [a \in DOMAIN p.inbox |-> R(p.inbox[a])]
                 /\ blocks' = {<<b[1], b[2]>> : b \in R(p.blocks)}
                 /\ names' = p.names /\ time' = p.time
Lbl(e) == [f \in (DOMAIN e) \ {"post", "x"} |-> e[f]]
SpecAct(e) == CASE e.a = "create" -> Create(e.s, e.to, e.c)
                [] e.a = "delete" -> Delete(e.s, e.from, e.t)
                [] e.a = "block" -> Block(e.s, e.targets)
                [] e.a = "repoint" -> Repoint(e.n, e.to)
                [] e.a = "tick" -> Tick
Report_(kind, name) == PrintT(<<kind, name, l>>)
Chk(name, F) == IF F THEN TRUE ELSE Report_("VIOL", name)
NT(name, F) == IF F THEN Report_("NT", name) ELSE TRUE
NT18 == last'.a \in {"create", "delete", "block"}
TStep == /\ E.a # "reset" /\ l' = l + 1
         /\ LoggedPost(E.post) /\ last' = Lbl(E)
         /\ GhostNext
         /\ (IF SpecAct(E) THEN TRUE ELSE Report_("DRIFT", E.a))
         /\ Chk("C18_Step", C18_Step) /\ Chk("C18_BlockSilent", C18_BlockSilent) /\ Chk("C18_BlockRecorded", C18_BlockRecorded)
         /\ Chk("C18_KF_BlockEntry", C18_KF_BlockEntry => C18_KF_BlockEntry')
         /\ Chk("C18_NoPhantom", C18_NoPhantom => C18_NoPhantom')
         /\ Chk("C18_KF_Overwrite", C18_KF_Overwrite => C18_KF_Overwrite')
         /\ Chk("C18_NoLoss", C18_NoLoss => C18_NoLoss')
         /\ NT("C18", NT18)
TReset == /\ E.a = "reset" /\ l' = l + 1 /\ LoggedPost(E.post) /\ last' = [a |-> "reset", ok |-> TRUE]
          /\ sent' = {} /\ deleted' = {} /\ gblocks' = {}
TInit == /\ l = 1 /\ inbox = <<>> /\ blocks = {} /\ names = <<>> /\ time = 0 /\ sent = {} /\ deleted = {} /\ gblocks = {}
         /\ last = [a |-> "init", ok |-> TRUE]
TNext == l <= Len(Trace) /\ (TStep \/ TReset)
TSpec == TInit /\ [][TNext]_tvars
HW == TLCSet(1, IF TLCGet(1) < l THEN l ELSE TLCGet(1))
ASSUME TLCSet(1, 0)
Accepted == IF TLCGet(1) = Len(Trace) + 1 THEN PrintT(<<"ACCEPTED", Len(Trace)>>)
            ELSE PrintT(<<"REJECTED_AT", TLCGet(1)>>)
=============================================================================

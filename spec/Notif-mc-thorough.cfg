CONSTANTS
  Acc = {"a", "b", "c"} Targets = {"a", "b", "c", "n1", "nx"} NameSet = {"n1"} Contents = {"c1", "c2"} MAXT = 2 MaxSent = 2
  FIX = {"blockentry", "overwrite"}
INIT Init
NEXT Next
VIEW View
INVARIANTS C18_KF_BlockEntry C18_NoPhantom C18_KF_Overwrite C18_NoLoss
PROPERTY PC18
CHECK_DEADLOCK FALSE

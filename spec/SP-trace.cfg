CONSTANTS
  Payers = {} Others = {} MAXH = 2000000000
  FIX = {"ref", "space", "gaugeid", "sizes"}
  TraceFile = "trace.ndjson"
SPECIFICATION TSpec
CONSTRAINT HW
POSTCONDITION Accepted
CHECK_DEADLOCK FALSE

-------------------------------- MODULE Auth --------------------------------
(* Authentication of custom-module messages: every message type names its creator, GetSigners  *)
(* returns exactly the creator, the ante handler accepts a transaction iff its signatures are   *)
(* exactly those of the signers of its messages, and the router dispatches it to a handler.     *)
(* Only creator-signed messages are ever executed. Property decided here: C11 (signer clause).  *)
EXTENDS Integers, Sequences, FiniteSets, TLC
CONSTANTS Types, Accts
VARIABLES executed, last
Signers(m) == <<m.creator>>                       \* x/*/types/message_*.go GetSigners
Accept(m, sigs) == sigs = Signers(m)              \* auth ante handler: signature set = signer set, in order
Deliver(t, c, sigs) ==
  LET m == [t |-> t, creator |-> c] IN
  /\ executed' = IF Accept(m, sigs) THEN executed \cup {[m |-> m, sigs |-> sigs]} ELSE executed
  /\ last' = [a |-> "deliver", t |-> t, creator |-> c, sigs |-> sigs, accepted |-> Accept(m, sigs)]
SigSets == {<<a>> : a \in Accts} \cup {<<a, b>> : a, b \in Accts} \cup {<<>>}
Init == executed = {} /\ last = [a |-> "init"]
Next == \E t \in Types, c \in Accts, s \in SigSets : Deliver(t, c, s)
C11_OnlyCreator == \A e \in executed : e.sigs = <<e.m.creator>>
\* the same rule as a predicate on one observation (used on recorded deliveries)
C11_AuthRule(creator, sigs, accepted) == accepted <=> (sigs = <<creator>>)
=============================================================================

-------------------------------- MODULE SP --------------------------------
(* Storage payments (x/storage): plans, plan purchases with referral / POL split,    *)
(* plan-paid and pay-once file posts, space accounting, payment gauges and their      *)
(* linear release at reward blocks.                                                   *)
(* Handlers: msg_server_buy_storage.go, msg_server_post_file.go,                      *)
(* msg_server_file_delete.go, files.go RemoveFile, gauges.go, rewards.go              *)
(* pullTokensFromGauges / removeFileIfDeserved.                                       *)
(* Properties decided here: C04, C07, C12.                                            *)
(* Sizes are in units of 10^6 bytes, time in ticks of one hour since the base block;  *)
(* `quote` is the chain's own tariff for the request, computed by the exported keeper *)
(* methods in the same state (an input: the tariff itself is not a property).         *)
EXTENDS Integers, Sequences, FiniteSets, FiniteSetsExt, TLC

CONSTANTS Payers, Others, MAXH,
          FIX   \* repaired deviations: subset of {"ref", "space", "gaugeid", "sizes"}

VARIABLES plans,    \* acct -> [start, end, avail, used]
          files,    \* fid -> [owner, size, maxp, plan, start, interval]
          gauges,   \* gid -> [start, end, amt]
          bal, now, height, par,
          dep, rel, \* ghosts: per gauge account, total credited / total released
          last
vars   == <<plans, files, gauges, bal, now, height, par>>
ghosts == <<dep, rel>>

MODS == "m:storage"
POL  == "pol"
FEES == "m:fee_collector"
Fixed(x) == x \in FIX
Put(f, k, v) == [x \in (DOMAIN f) \cup {k} |-> IF x = k THEN v ELSE f[x]]
Del(f, k)    == [x \in (DOMAIN f) \ {k} |-> f[x]]
SumOver(S, F(_)) == FoldSet(LAMBDA x, acc : acc + F(x), 0, S)
Abs(x) == IF x < 0 THEN -x ELSE x
IsGauge(a) == a \in DOMAIN gauges \/ a \in DOMAIN dep
Fail(lbl) == UNCHANGED vars /\ last' = [lbl EXCEPT !.ok = FALSE]

\* trunc(x * p/100) toward zero, for x >= 0 and integer p (exact for the 18-decimal sdk.Dec arithmetic)
Pct(x, p) == IF p >= 0 THEN (x * p) \div 100 ELSE 0 - ((x * (0 - p)) \div 100)
Young(f, h) == f.start + f.interval >= h
Foot(f) == f.size * f.maxp

---------------------------------------------------------------------------
(* BuyStorage. ref = label of the account the referral resolves to, or "none".       *)
(* gid = label of the gauge escrow account the chain derives for this purchase.       *)
(* deviation "ref": the pinned code sends the POL amount to the referrer.             *)
(* deviation "gaugeid": the pinned gauge id is a hash of (height, end, coins), so an   *)
(* equal purchase in the same block lands on the existing gauge record and account.    *)
BuyStorage(s, for, units, days, ref, quote, gid) ==
  LET lbl == [a |-> "buy", s |-> s, for |-> for, units |-> units, days |-> days, ref |-> ref, quote |-> quote, ok |-> TRUE]
      found == for \in DOMAIN plans
      referred == ref # "none" /\ ref # s
      disc == IF ~referred THEN 0 ELSE IF days > 365 THEN 5 ELSE 10
      paid == Pct(quote, 100 - disc)
      polp == par.pol - disc
      gamt == Pct(paid, 100 - par.ref - par.pol)
      pola == Pct(paid, polp)
      refa == IF referred /\ ~Fixed("ref") THEN pola ELSE Pct(paid, par.ref)
      to == IF referred THEN ref ELSE FEES
      b1 == [bal EXCEPT ![s] = @ - paid, ![MODS] = @ + paid]
      b2 == [b1 EXCEPT ![MODS] = @ - gamt, ![gid] = @ + gamt]
      b3 == [b2 EXCEPT ![MODS] = @ - pola, ![POL] = @ + pola]
      b4 == [b3 EXCEPT ![MODS] = @ - refa, ![to] = @ + refa]
      endt == now + days * 24
  IN IF days < 30 \/ units < 1000 \/ quote <= 0 \/ (found /\ plans[for].used > units) THEN Fail(lbl)
     ELSE IF bal[s] < paid \/ pola < 0 \/ b4[MODS] < 0 THEN Fail(lbl)
     ELSE /\ gid \in DOMAIN bal
          /\ (gid \in DOMAIN gauges => ~Fixed("gaugeid") /\ gauges[gid] = [start |-> now, end |-> endt, amt |-> gamt])
          /\ plans' = Put(plans, for, [start |-> now, end |-> endt, avail |-> units,
                                        used |-> IF found THEN plans[for].used ELSE 0])
          /\ gauges' = Put(gauges, gid, [start |-> now, end |-> endt, amt |-> gamt])
          /\ bal' = b4
          /\ UNCHANGED <<files, now, height, par>> /\ last' = lbl

(* A gauge opened outside the message handlers, as genesis or an upgrade can: amt of the payment denomination, possibly     *)
(* held next to coins of other denominations in the same gauge record; funded from outside the modelled accounts.          *)
MkGauge(gid, amt, days) ==
  LET lbl == [a |-> "mkgauge", amt |-> amt, days |-> days, ok |-> TRUE] IN
  /\ gid \in DOMAIN bal /\ gid \notin DOMAIN gauges
  /\ gauges' = Put(gauges, gid, [start |-> now, end |-> now + days * 24, amt |-> amt])
  /\ bal' = [bal EXCEPT ![gid] = @ + amt]
  /\ UNCHANGED <<plans, files, now, height, par>> /\ last' = lbl

(* PostFile. pay = "plan" (Expires = 0) or "once" (Expires > 0, `days` whole days, quote = cost).  *)
(* deviation "space": RemoveFile does not hand the footprint back (delete, drop, re-post).          *)
(* deviation "sizes": the pinned ValidateBasic accepts sizes / replication <= 0.                    *)
Release(pl, f) ==   \* plans after the footprint of file f (if plan-paid) is handed back
  IF Fixed("space") /\ f.plan /\ f.owner \in DOMAIN pl
  THEN [pl EXCEPT ![f.owner].used = IF @ - Foot(f) < 0 THEN 0 ELSE @ - Foot(f)]
  ELSE pl
PostFile(s, m, sz, mp, pay, days, quote, gid) ==
  LET lbl == [a |-> "postfile", s |-> s, m |-> m, sz |-> sz, mp |-> mp, pay |-> pay, days |-> days, quote |-> quote, ok |-> TRUE]
      fid == <<m, s, height>>
      rec == [owner |-> s, size |-> sz, maxp |-> mp, plan |-> (pay = "plan"), start |-> height, interval |-> par.I]
      pl0 == IF fid \in DOMAIN files THEN Release(plans, files[fid]) ELSE plans   \* same-key re-post replaces
      gamt == Pct(quote, 100 - par.ref - par.pol)
  IN IF Fixed("sizes") /\ (sz <= 0 \/ mp <= 0) THEN Fail(lbl)
     ELSE IF pay = "plan"
     THEN IF s \notin DOMAIN pl0 THEN Fail(lbl)
          ELSE IF pl0[s].end < now \/ pl0[s].used + sz * mp > pl0[s].avail THEN Fail(lbl)
          ELSE /\ files' = Put(files, fid, rec)
               /\ plans' = [pl0 EXCEPT ![s].used = @ + sz * mp]
               /\ UNCHANGED <<gauges, bal, now, height, par>> /\ last' = lbl
     ELSE IF days <= 0 \/ quote < 0 \/ bal[s] < quote THEN Fail(lbl)
          ELSE /\ gid \in DOMAIN bal
               /\ (gid \in DOMAIN gauges => ~Fixed("gaugeid") /\ gauges[gid] = [start |-> now, end |-> now + days * 24, amt |-> gamt])
               /\ files' = Put(files, fid, rec)
               /\ plans' = pl0
               /\ gauges' = Put(gauges, gid, [start |-> now, end |-> now + days * 24, amt |-> gamt])
               /\ bal' = [bal EXCEPT ![s] = @ - quote, ![MODS] = @ + quote - gamt, ![gid] = @ + gamt]
               /\ UNCHANGED <<now, height, par>> /\ last' = lbl

DeleteFile(s, m, st) ==
  LET lbl == [a |-> "deletefile", s |-> s, m |-> m, st |-> st, ok |-> TRUE]
      fid == <<m, s, st>>
  IN IF fid \notin DOMAIN files THEN UNCHANGED vars /\ last' = lbl
     ELSE /\ files' = Del(files, fid)
          /\ plans' = Release(plans, files[fid])
          /\ UNCHANGED <<gauges, bal, now, height, par>> /\ last' = lbl

\* a prover joins / proves: no effect on the payment state
PostProof(p, fid) ==
  /\ UNCHANGED vars /\ last' = [a |-> "postproof", s |-> p, f |-> fid, ok |-> TRUE]

\* governance changes the split ratios
SetRatios(r, p) ==
  /\ par' = [par EXCEPT !.ref = r, !.pol = p]
  /\ UNCHANGED <<plans, files, gauges, bal, now, height>>
  /\ last' = [a |-> "setratios", ref |-> r, pol |-> p, ok |-> TRUE]

---------------------------------------------------------------------------
(* Block boundary. dt = ticks; gone = files the chain dropped (proverless, past their first window); *)
(* out = amount that left each gauge account; pay = amounts received by provers.                      *)
Due(g, t) == LET gg == gauges[g] IN (gg.amt * (t - gg.start)) \div (gg.end - gg.start) - (gg.amt - bal[g])
RECURSIVE ReleaseAll(_, _)
ReleaseAll(pl, S) == IF S = {} THEN pl ELSE LET f == CHOOSE f \in S : TRUE IN ReleaseAll(Release(pl, files[f]), S \ {f})
Block(dt, gone, out, pay) ==
  LET t == now + dt
      h == height + 1
      reward == h % par.C = 0
      dead == {g \in DOMAIN gauges : gauges[g].end < t \/ gauges[g].end <= gauges[g].start \/ bal[g] = 0}
      R == SumOver(DOMAIN out, LAMBDA g : out[g])
      paid == SumOver(DOMAIN pay, LAMBDA p : pay[p])
  IN /\ height < MAXH /\ height' = h /\ now' = t /\ UNCHANGED par
     /\ IF reward
        THEN /\ gone \subseteq {f \in DOMAIN files : ~Young(files[f], h)}
             /\ files' = [f \in (DOMAIN files) \ gone |-> files[f]]
             /\ plans' = ReleaseAll(plans, gone)
             /\ gauges' = [g \in (DOMAIN gauges) \ dead |-> gauges[g]]
             /\ \A g \in DOMAIN out : IF g \in (DOMAIN gauges) \ dead THEN Abs(out[g] - Due(g, t)) <= 1 /\ out[g] >= 0 /\ out[g] <= bal[g]
                                      ELSE out[g] = 0
             /\ \A p \in DOMAIN pay : pay[p] >= 0
             /\ (Fixed("sizes") => paid <= R)   \* negative declared sizes skew the shares in the pinned code
             /\ bal' = [a \in DOMAIN bal |-> IF a \in DOMAIN out THEN bal[a] - out[a]
                                             ELSE IF a = MODS THEN bal[a] + R - paid
                                             ELSE IF a \in DOMAIN pay THEN bal[a] + pay[a] ELSE bal[a]]
        ELSE /\ gone = {} /\ \A g \in DOMAIN out : out[g] = 0 /\ \A p \in DOMAIN pay : pay[p] = 0
             /\ UNCHANGED <<plans, files, gauges, bal>>
     /\ last' = [a |-> "block", dt |-> dt, reward |-> reward, ok |-> TRUE]

\* deviation "sizes": a file of declared size <= 0 with a prover makes the reward computation panic; the node
\* halts and nothing of the block is committed
BlockPanic(dt) ==
  /\ ~Fixed("sizes") /\ UNCHANGED vars
  /\ last' = [a |-> "block", dt |-> dt, reward |-> ((height + 1) % par.C = 0), ok |-> FALSE]

---------------------------------------------------------------------------
Delta(a) == bal'[a] - bal[a]
GhostNext ==
  /\ dep' = [g \in {a \in DOMAIN bal' : a \in DOMAIN gauges' \/ a \in DOMAIN dep} |->
               (IF g \in DOMAIN dep THEN dep[g] ELSE 0) + (IF Delta(g) > 0 THEN Delta(g) ELSE 0)]
  /\ rel' = [g \in {a \in DOMAIN bal' : a \in DOMAIN gauges' \/ a \in DOMAIN dep} |->
               (IF g \in DOMAIN rel THEN rel[g] ELSE 0) + (IF Delta(g) < 0 THEN -Delta(g) ELSE 0)]

---------------------------------------------------------------------------
(* Properties *)
GaugeAccts == {a \in DOMAIN bal : a \in DOMAIN gauges \/ a \in DOMAIN gauges' \/ a \in DOMAIN dep}
Supply(b) == SumOver(DOMAIN b, LAMBDA a : b[a])
NewGauges == (DOMAIN gauges') \ (DOMAIN gauges)

\* C04: exact charge, full accounting of the split
C04_Buy ==
  LET l == last' IN
  (l.a = "buy") =>
    IF ~l.ok THEN bal' = bal
    ELSE LET referred == l.ref # "none" /\ l.ref # l.s
             paid == -Delta(l.s)
             to == IF referred THEN l.ref ELSE FEES
             special == {l.s, POL, to, MODS} \cup GaugeAccts
         IN \* the referral discount is whatever percentage the chain grants (5 or 10 at the pinned commit); the same
            \* percentage lowers the liquidity share; without a distinct valid referrer there is no discount
            /\ \E disc \in (IF referred THEN 0..50 ELSE {0}) :
                  /\ paid = Pct(l.quote, 100 - disc)
                  /\ (POL # to) => Abs(Delta(POL) - Pct(paid, par.pol - disc)) <= 1
            /\ Supply(bal') = Supply(bal)
            /\ Cardinality(NewGauges) = 1
            /\ \A g \in NewGauges : g \in DOMAIN bal' /\ gauges'[g].amt = bal'[g] /\ Delta(g) = bal'[g]
            /\ \A g \in GaugeAccts \ NewGauges : Delta(g) = 0
            /\ (POL # to /\ to # l.s) => Abs(Delta(to) - Pct(paid, par.ref)) <= 1
            /\ Delta(MODS) >= 0
            /\ \A a \in (DOMAIN bal) \ special : Delta(a) = 0
C04_PayOnce ==
  LET l == last' IN
  (l.a = "postfile" /\ l.pay = "once") =>
    IF ~l.ok THEN bal' = bal
    ELSE /\ -Delta(l.s) = l.quote
         /\ Supply(bal') = Supply(bal)
         /\ Cardinality(NewGauges) = 1
         /\ \A g \in NewGauges : g \in DOMAIN bal' /\ gauges'[g].amt = bal'[g] /\ Delta(g) = bal'[g]
         /\ \A g \in GaugeAccts \ NewGauges : Delta(g) = 0
         /\ Delta(MODS) >= 0
         /\ \A a \in (DOMAIN bal) \ ({l.s, MODS} \cup GaugeAccts) : Delta(a) = 0
C04_Other == (last'.a \in {"deletefile", "postproof"} \/ (last'.a = "postfile" /\ last'.pay = "plan")) => bal' = bal

\* C07: plan space accounting
UsedBy(a, F) == SumOver({f \in DOMAIN F : F[f].owner = a /\ F[f].plan}, LAMBDA f : Foot(F[f]))
C07_Used == \A a \in DOMAIN plans :
              /\ plans[a].used = UsedBy(a, files)
              /\ plans[a].used >= 0 /\ plans[a].used <= plans[a].avail
C07_Reject ==
  LET l == last' IN
  (l.a = "postfile" /\ l.pay = "plan") =>
     LET live == l.s \in DOMAIN plans /\ plans[l.s].end >= now
         fid == <<l.m, l.s, height>>
         freed == IF fid \in DOMAIN files /\ files[fid].plan THEN Foot(files[fid]) ELSE 0
         room == live /\ plans[l.s].used - freed + l.sz * l.mp <= plans[l.s].avail
     IN /\ (~live \/ ~room) => ~l.ok
        /\ ~l.ok => (plans' = plans /\ files' = files)

\* C12: linear release
C12_Gauges ==
  LET l == last' IN
  /\ \A g \in DOMAIN rel' : rel'[g] <= dep'[g] /\ (g \in DOMAIN rel => rel'[g] >= rel[g])
  /\ (l.a = "block" /\ l.ok) =>
       \A g \in DOMAIN gauges :
          LET gg == gauges[g]  t == now' IN
          IF ~l.reward THEN Delta(g) = 0
          ELSE IF t > gg.end \/ t < gg.start \/ gg.end <= gg.start THEN Delta(g) = 0   \* (a gauge without duration releases nothing)
          ELSE /\ Abs(rel'[g] - (dep[g] * (t - gg.start)) \div (gg.end - gg.start)) <= 1
               /\ rel'[g] <= dep[g]
  /\ (l.a # "block") => \A g \in DOMAIN gauges : Delta(g) >= 0
  /\ \A g \in DOMAIN dep' : g \in DOMAIN bal' /\ bal'[g] = dep'[g] - rel'[g]

TypeOK == \A a \in DOMAIN bal : bal[a] >= 0
=============================================================================

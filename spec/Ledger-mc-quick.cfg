CONSTANTS
  Denoms = {"ujkl"}
  MintDenom = "ujkl"
  MaxAmt = 2
  FIX = {"refund", "passfee", "fullmint"}
  Start = 4
  E0 = 3
  MaxSupply = 8
INIT Init
NEXT Next
VIEW View
CONSTRAINT Solvent
INVARIANTS Conserved LG_RnsBacked LG_CollBacked LG_NonNeg
PROPERTY PStep
CHECK_DEADLOCK FALSE

CONSTANTS
  Owners = {} Provers = {} Merkles = {} Reps = {} Rels = {} Doms = {}
  MAXH = 2000000000
  FIX = {"addprover", "walk", "repost"}
  TraceFile = "trace.ndjson"
SPECIFICATION TSpec
CONSTRAINT HW
POSTCONDITION Accepted
CHECK_DEADLOCK FALSE

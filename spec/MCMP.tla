------------------------------- MODULE MCMP -------------------------------
EXTENDS MP
VARIABLE x
Init == x = 0
Next == x' = x
Spec == Init /\ [][Next]_x
ASSUME SymbolicOK
=============================================================================

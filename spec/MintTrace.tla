----------------------------- MODULE MintTrace -----------------------------
EXTENDS Mint, Json, Sequences
CONSTANTS TraceFile
VARIABLE l
Trace == ndJsonDeserialize(TraceFile)
tvars == <<vars, last, l>>
E == Trace[l]
LoggedPost(p) == /\ prev' = p.prev /\ par' = p.par /\ bal' = p.bal /\ supply' = p.supply
                 /\ height' = p.height /\ halted' = p.halted
Lbl(e) == [f \in (DOMAIN e) \ {"post", "x", "st"} |-> e[f]]   \* st: which of the two stipend accounts is configured (harness side)
SpecAct(e) == CASE e.a = "block" -> Block [] e.a = "setparams" -> SetParams(e.p)
Report_(kind, name) == PrintT(<<kind, name, l>>)
Chk(name, F) == IF F THEN TRUE ELSE Report_("VIOL", name)
NT(name, F) == IF F THEN Report_("NT", name) ELSE TRUE
Meta == {"reset", "genesis"}
TStep == /\ E.a \notin Meta /\ l' = l + 1
         /\ LoggedPost(E.post) /\ last' = Lbl(E)
         /\ (IF SpecAct(E) THEN TRUE ELSE Report_("DRIFT", E.a))
         /\ Chk("C13_Step", C13_Step) /\ Chk("C13_Params", C13_Params) /\ Chk("TypeOK", TypeOK')
         /\ NT("C13", last'.a = "block")
TReset == /\ E.a \in Meta /\ l' = l + 1 /\ LoggedPost(E.post) /\ last' = [a |-> "reset", ok |-> TRUE]
TInit == /\ l = 1 /\ prev = -1 /\ par = <<>> /\ bal = <<>> /\ supply = 0 /\ height = 0 /\ halted = FALSE
         /\ last = [a |-> "init", ok |-> TRUE]
TNext == l <= Len(Trace) /\ (TStep \/ TReset)
TSpec == TInit /\ [][TNext]_tvars
HW == TLCSet(1, IF TLCGet(1) < l THEN l ELSE TLCGet(1))
ASSUME TLCSet(1, 0)
Accepted == IF TLCGet(1) = Len(Trace) + 1 THEN PrintT(<<"ACCEPTED", Len(Trace)>>)
            ELSE PrintT(<<"REJECTED_AT", TLCGet(1)>>)
=============================================================================

#!/bin/sh
# For each "fix:" commit: revert it in a scratch worktree of /repo (never in /repo itself), run the quick checks of the
# affected properties against that worktree (VERIF_REPO), expect a VIOLATION, remove the worktree.
# A fix whose lines were changed again by a later fix cannot be reverted alone ("cannot revert"): the later fix's revert covers it.
cd /verif
run() { c=$1; shift
  wt=/tmp/wt/rev-$c
  git -C /repo worktree remove --force $wt >/dev/null 2>&1
  git -C /repo worktree add -q --detach $wt HEAD || return
  if git -C /repo show $c | git -C $wt apply -R 2>/dev/null; then
    for p in "$@"; do
      out=$(VERIF_REPO=$wt VERIF_EVIDENCE_DIR=/verif/.work/seed-evidence python3 check.py $p --tier quick 2>&1); rc=$?
      echo "revert $c -> $p rc=$rc viol=$(echo "$out" | grep -c '^VIOLATION') $(echo "$out" | grep -m1 -e '^  formula' -e INFRA | cut -c1-120)"
    done
  else
    echo "cannot revert $c alone (later fixes touch the same lines)"
  fi
  git -C /repo worktree remove --force $wt
}
run 89aa9be4 C07
run ee9314a5 C03
run a22da722 C05
run 3e316352 C05 C07
run 0e00c894 C13
run 02383f48 C05 C07
run 3f7f8cab C07
run b0cbba60 C12 C04
run 46b421f1 C04
run 0461224b C03
run 68587929 C01 C07
run 9d7ef8ce C01
run 12fb78c6 C16 C08
run 37663b08 C08
run c05e1c11 C09

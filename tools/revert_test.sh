#!/bin/sh
# For each "fix:" commit: revert it in the working tree of /repo, run the checks of the affected properties
# (quick tier), expect VIOLATION, restore the tree.
cd /verif
run() { c=$1; shift; 
  git -C /repo show $c | git -C /repo apply -R || { echo "cannot revert $c"; return; }
  for p in "$@"; do
    out=$(python3 check.py $p --tier quick 2>&1); rc=$?
    echo "revert $c -> $p rc=$rc viol=$(echo "$out" | grep -c '^VIOLATION') $(echo "$out" | grep -m1 '^  formula' | cut -c1-120)"
  done
  git -C /repo checkout -- .
}
run 0e00c894 C13
run 02383f48 C05 C07
run 3f7f8cab C07
run b0cbba60 C12 C04
run 46b421f1 C04
run 0461224b C03
run 68587929 C01 C07
run 9d7ef8ce C01
run 12fb78c6 C16 C08
run 37663b08 C08
run c05e1c11 C09
git -C /repo status --short | head -3

#!/bin/sh
# runs every claimed check at the given tier (default quick) and prints one summary line per property
TIER=${1:-quick}
cd "$(dirname "$0")/.."
for p in $(python3 -c "import json;print(' '.join(c['property_id'] for c in json.load(open('MANIFEST.json'))['checks']))"); do
  s=$(date +%s)
  out=$(python3 check.py $p --tier $TIER 2>&1); rc=$?
  e=$(date +%s)
  echo "$p rc=$rc $((e-s))s $(echo "$out" | grep -c '^DRIFT') drift $(echo "$out" | grep -c '^VIOLATION') viol $(echo "$out" | grep -c '^KNOWN-FINDING') known | $(echo "$out" | grep '^\[done\]\|INFRA' | cut -c1-150)"
done

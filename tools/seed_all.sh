#!/bin/sh
# seed_all.sh [workers]: runs the quick check of the broken property against every recorded seeded change (scratch worktrees),
# N in parallel; one line per seed in .work/seed_all.log
cd /verif
n=${1:-3}
ls seeded | grep -v '^C05$' > .work/seed_list.txt   # seeded/C05 is superseded (needs the overflow that fix ee9314a5 removed)
: > .work/seed_all.log
i=0
while [ $i -lt $n ]; do
  ( awk -v n=$n -v i=$i 'NR % n == i' .work/seed_list.txt | while read id; do
      p=$(echo $id | cut -c1-3)
      tools/seed_run_wt.sh $id quick $p 2>&1 | tail -1 | cut -c1-200 >> .work/seed_all.log
    done ) &
  i=$((i+1))
done
wait
sort .work/seed_all.log
echo "caught: $(grep -c 'rc=1' .work/seed_all.log) of $(wc -l < .work/seed_list.txt)"

#!/bin/sh
# seed_run.sh <seed-id> <tier> <props...> : applies /verif/seeded/<id>/patch.diff to /repo, runs the checks, restores /repo
id=$1; tier=$2; shift 2
cd /verif
git -C /repo apply /verif/seeded/$id/patch.diff || { echo "cannot apply $id"; exit 2; }
for p in "$@"; do
  out=$(python3 check.py $p --tier $tier 2>&1); rc=$?
  echo "seed $id -> $p [$tier] rc=$rc viol=$(echo "$out" | grep -c '^VIOLATION') drift=$(echo "$out" | grep -c '^DRIFT') $(echo "$out" | grep -m1 '^  formula' | cut -c1-140)"
done
git -C /repo checkout -- .

#!/usr/bin/env python3
"""Regenerates /verif/MANIFEST.json from lib/families.py (claimed = every property in PROPS)."""
import json, os, sys
ROOT = os.path.dirname(os.path.dirname(os.path.abspath(__file__)))
sys.path.insert(0, os.path.join(ROOT, "lib"))
from families import PROPS, FAMILIES  # noqa

NA_REASON = {}
props = [json.loads(l) for l in open(os.path.join(ROOT, "properties.jsonl"))]
checks = []
for p in props:
    pid = p["id"]
    if pid not in PROPS:
        continue
    pr = PROPS[pid]
    fam = pr.get("family") or " + ".join(pr.get("families", [])) or pr.get("custom", "")
    checks.append({
        "property_id": pid,
        "quick_cmd": f"python3 check.py {pid} --tier quick",
        "thorough_cmd": f"python3 check.py {pid} --tier thorough",
        "evidence_file": f"/verif/evidence/{pid}.json",
        "replay_cmd_template": f"python3 check.py {pid} --replay {{path}}",
        "engine": "tla-trace",
        "level_claimed": {
            "category": "model_checking",
            "text": pr.get("level_text", "TLC exhausts the family's TLA+ model within small constants (repaired design, plus buggy variants as vacuity "
                    "guard where the code had a defect); TLC-generated behaviours and seeded random histories are executed on the real "
                    "JackalApp and every recorded step is validated by TLC against the spec action (conformance, reported as DRIFT) "
                    "and against the property formulas (violations)."),
            "design_ref": pr.get("design_ref", "DESIGN.md §2, §3 " + pid),
        },
        "level_note": pr.get("level_note", "trusted: harness projection of the real stores, delivery-mode equivalence stated in evidence assumptions, TLC; "
                             "exhaustive only within the stated model constants; real-code coverage is sampled (TLC simulation + seeded random drivers)"),
        "technique": pr.get("technique", "TLA+ spec (family " + fam + ") + TLC exhaustive model checking + TLC trace validation of real executions"),
    })
m = {
    "version": 1,
    "setup_cmd": "sh setup.sh",
    "hooks": {"guard": "verif", "enable": "go build -tags verif (the harness in /verif/harness is built with the tag against /repo); no source hooks were needed",
              "baseline_off_cmd": "sh /verif/baseline_off.sh", "source_commits": [], "add_only": True},
    "engines": [{"name": "tla-trace", "path": "/verif/check.py", "serves_properties": sorted(PROPS),
                 "kind_free_text": "TLA+ specs in /verif/spec, TLC model checking and trace validation, Go conformance harness in /verif/harness driving the real app"}],
    "checks": checks,
    "not_applicable": [{"property_id": p["id"], "reason": NA_REASON.get(p["id"], "check not built yet (work in progress; see DESIGN.md)")}
                       for p in props if p["id"] not in PROPS],
    "notes": "See DESIGN.md. Exit 2 of a check = infrastructure error (never a violation).",
}
json.dump(m, open(os.path.join(ROOT, "MANIFEST.json"), "w"), indent=1)
print("claimed:", sorted(PROPS))

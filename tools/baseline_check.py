#!/usr/bin/env python3
"""Runs the repository's test suite with the verif guard OFF and compares with the stable list of BASELINE.json."""
import json, subprocess, sys, os
env = dict(os.environ, GOFLAGS="-mod=mod", GOPROXY="off", GOSUMDB="off", GOTOOLCHAIN="local")
p = subprocess.run(["go", "test", "-mod=mod", "-json", "-vet=off", "-count=1", "-timeout", "25m", "./..."], cwd="/repo", env=env,
                   stdout=subprocess.PIPE, stderr=subprocess.DEVNULL, text=True)
passed, failed = set(), set()
for line in p.stdout.splitlines():
    try:
        e = json.loads(line)
    except Exception:
        continue
    if e.get("Test") and e.get("Action") in ("pass", "fail"):
        (passed if e["Action"] == "pass" else failed).add(f"{e['Package']}::{e['Test']}")
stable = set(json.load(open("/root/.vp/BASELINE.json"))["stable_pass"])
missing = sorted(stable - passed)
print(f"stable={len(stable)} passed_now={len(passed)} failed_now={len(failed)} stable_not_passing={len(missing)}")
for m in missing[:40]:
    print("  NOT PASSING:", m)
sys.exit(1 if missing else 0)

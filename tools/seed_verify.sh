#!/bin/sh
# seed_verify.sh <id> <demo-dest-dir-in-repo> <existing-test-pkgs> <demo go test args...>
# Confirms in the scratch worktree /tmp/wt/<id>: patch applies on clean HEAD, builds, existing tests pass with it,
# demo passes without the patch and fails with it.
id=$1; dest=$2; pkgs=$3; shift 3
wt=/tmp/wt/$id; out=/tmp/wt/$id.out
export GOFLAGS=-mod=mod GOPROXY=off GOSUMDB=off GOTOOLCHAIN=local
cd $wt || exit 2
git checkout -q -- . ; git clean -fdq -- . >/dev/null 2>&1
git apply --check $out/patch.diff || { echo "$id: patch does not apply"; exit 1; }
cp $out/seeded_*_test.go $dest/ || exit 1
go test -vet=off -count=1 "$@" > /tmp/wt/$id.demo_without.log 2>&1; r0=$?
git apply $out/patch.diff
go build ./... > /tmp/wt/$id.build.log 2>&1; rb=$?
go test -vet=off -count=1 "$@" > /tmp/wt/$id.demo_with.log 2>&1; r1=$?
rm -f $dest/seeded_*_test.go
go test -vet=off -count=1 $pkgs > /tmp/wt/$id.existing.log 2>&1; re=$?
echo "$id: build=$rb existing_tests=$re demo_without_patch=$r0 demo_with_patch=$r1  (want 0 0 0 nonzero)"

#!/bin/sh
# measure_one.sh <module> <cfg> [timeout]: runs one exhaustive TLC configuration and prints its size and time
cd /verif/spec
d=/verif/.work/m1-$2; mkdir -p $d; cp *.tla $d/; cp $2 $d/$1.cfg
s=$(date +%s)
(cd $d && timeout ${3:-900} java -XX:+UseParallelGC -Xmx16g -Xss128m -cp /opt/veriftools/tla/tla2tools.jar:/opt/veriftools/tla/CommunityModules-deps.jar tlc2.TLC -workers 16 -metadir $d/md $1.tla > out.txt 2>&1)
e=$(date +%s)
echo "$2: $((e-s))s $(grep -a -e 'states generated' $d/out.txt | tail -1) violated=$(grep -a -c 'violated' $d/out.txt) $(grep -a -e 'Progress' $d/out.txt | tail -1 | cut -c1-150)"
rm -rf $d/md

#!/bin/sh
cd /verif/spec
for mc in "MCSP SP-mc-pay-thorough.cfg" "MCNotif Notif-mc-thorough.cfg" "MCFT FT-mc-thorough.cfg" "MCMP MP-mc-thorough.cfg"; do
  set -- $mc
  d=/verif/.work/measure-$2; mkdir -p $d; cp *.tla $d/; cp $2 $d/$1.cfg
  s=$(date +%s)
  (cd $d && timeout 900 java -XX:+UseParallelGC -Xmx16g -Xss128m -cp /opt/veriftools/tla/tla2tools.jar:/opt/veriftools/tla/CommunityModules-deps.jar tlc2.TLC -workers 16 -metadir $d/md $1.tla > out.txt 2>&1)
  e=$(date +%s)
  echo "$2: $((e-s))s $(grep -e 'states generated' $d/out.txt | tail -1) $(grep -c 'violated' $d/out.txt) violated $(grep -e 'Progress' $d/out.txt | tail -1 | cut -c1-160)"
  rm -rf $d/md
done

#!/bin/sh
# benign_run.sh <patch-name> <props...>: applies a benign change, runs checks, expects exit 0 (DRIFT allowed), restores
n=$1; shift
cd /verif
git -C /repo apply /verif/selftest/benign/$n.patch || { echo "cannot apply $n"; exit 2; }
for p in "$@"; do
  out=$(python3 check.py $p --tier quick 2>&1); rc=$?
  echo "benign $n -> $p rc=$rc viol=$(echo "$out" | grep -c '^VIOLATION') drift=$(echo "$out" | grep -c '^DRIFT') $(echo "$out" | grep -m1 -e '^  formula' -e 'INFRA' | cut -c1-140)"
done
git -C /repo checkout -- .

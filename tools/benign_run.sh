#!/bin/sh
# benign_run.sh <patch-name> <props...>: applies a benign change in a scratch worktree (never in /repo), runs the quick checks
# against it, expects exit 0 (DRIFT allowed), removes the worktree
n=$1; shift
cd /verif
wt=/tmp/wt/ben-$n
git -C /repo worktree remove --force $wt >/dev/null 2>&1
git -C /repo worktree add -q --detach $wt HEAD || exit 2
git -C $wt apply /verif/selftest/benign/$n.patch || { echo "cannot apply $n"; git -C /repo worktree remove --force $wt; exit 2; }
for p in "$@"; do
  out=$(VERIF_REPO=$wt VERIF_EVIDENCE_DIR=/verif/.work/seed-evidence python3 check.py $p --tier quick 2>&1); rc=$?
  echo "benign $n -> $p rc=$rc viol=$(echo "$out" | grep -c '^VIOLATION') drift=$(echo "$out" | grep -c '^DRIFT') $(echo "$out" | grep -m1 -e '^  formula' -e 'INFRA' | cut -c1-140)"
done
git -C /repo worktree remove --force $wt

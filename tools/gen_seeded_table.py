#!/usr/bin/env python3
"""Rewrites the seeded-changes table in DESIGN.md from seeded/*/meta.json and selftest/benign."""
import glob, json, os, re
ROOT = os.path.dirname(os.path.dirname(os.path.abspath(__file__)))
rows = []
for p in sorted(glob.glob(os.path.join(ROOT, "seeded", "*", "meta.json"))):
    m = json.load(open(p))
    rows.append(f"| `seeded/{m['seed']}` | {m['breaks_property']} | {m['change']} | {m['needs_to_manifest']} | {m['result']} |")
benign = sorted(os.path.basename(x) for x in glob.glob(os.path.join(ROOT, "selftest", "benign", "*.patch")))
txt = ("<!-- SEEDED-BEGIN -->\n"
       "| change | breaks | what it is | what it needs to manifest | caught by |\n|---|---|---|---|---|\n" + "\n".join(rows) + "\n\n"
       "Benign changes (`selftest/benign/*.patch`, run with `tools/benign_run.sh`): " + ", ".join(f"`{b}`" for b in benign) +
       " — every affected check exits 0 (the tariff, discount and free-name-term changes are reported as `DRIFT`).\n"
       "<!-- SEEDED-END -->")
d = open(os.path.join(ROOT, "DESIGN.md")).read()
if "<!-- SEEDED-BEGIN -->" in d:
    d = re.sub(r"<!-- SEEDED-BEGIN -->.*?<!-- SEEDED-END -->", lambda _: txt, d, flags=re.S)
else:
    d = d.replace("## 7. Limits, assumptions", "## 6b. Seeded changes and what catches them\n\n"
                  "Each change below was written by an independent sub-agent that was given only the property text and a scratch worktree; "
                  "I confirmed each one myself (`tools/seed_verify.sh`: applies on HEAD, builds, existing tests pass, the author's demonstration "
                  "test fails with it and passes without) and ran the checks against it (`tools/seed_run.sh`). Where a check missed a change the "
                  "machinery was strengthened and the row says so. Besides these, `tools/revert_test.sh` reverts each of the `fix:` commits and "
                  "confirms that the check of the corresponding property fires.\n\n" + txt +
                  "\n\n--------------------------------------------------------------------------------------------------\n\n## 7. Limits, assumptions", 1)
open(os.path.join(ROOT, "DESIGN.md"), "w").write(d)
print(len(rows), "seeded rows")

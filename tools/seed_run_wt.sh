#!/bin/sh
# seed_run_wt.sh <seed-id | /path/to/patch.diff> <tier> <props...> : like seed_run.sh but in a scratch worktree of /repo (VERIF_REPO), so that
# /repo itself stays untouched (usable while other checks run against /repo). The worktree is removed afterwards.
id=$1; tier=$2; shift 2
cd /verif
patch=/verif/seeded/$id/patch.diff
case "$id" in */*) patch=$id; id=$(basename $(dirname $id));; esac
wt=/tmp/wt/run-$id
git -C /repo worktree remove --force $wt >/dev/null 2>&1
git -C /repo worktree add -q --detach $wt HEAD || exit 2
git -C $wt apply $patch || { echo "cannot apply $id"; git -C /repo worktree remove --force $wt; exit 2; }
for p in "$@"; do
  out=$(VERIF_REPO=$wt VERIF_EVIDENCE_DIR=/verif/.work/seed-evidence python3 check.py $p --tier $tier 2>&1); rc=$?
  echo "seed $id -> $p [$tier] rc=$rc viol=$(echo "$out" | grep -c '^VIOLATION') drift=$(echo "$out" | grep -c '^DRIFT') $(echo "$out" | grep -m1 -e '^  formula' -e INFRA | cut -c1-160)"
done
git -C /repo worktree remove --force $wt

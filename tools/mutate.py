#!/usr/bin/env python3
"""Operator-mutation self-test of the checks (machinery for DESIGN §6c; not a registered check).

For every candidate single-token mutation of the anchored source files (relational / logical / arithmetic operator
flips) it: applies the mutation in a private scratch worktree of /repo (never in /repo), keeps it only if the module still
builds AND its existing tests still pass (a mutant the repository's own tests kill is not interesting), then runs the quick
checks of the properties mapped to that file against the worktree (VERIF_REPO) and records which check, if any, reports a
violation. Survivors (existing tests pass, no check fires) are listed for manual triage: equivalent mutant, outside every
listed property, or a hole in the machinery.

usage: mutate.py plan            -> writes .work/mut/plan.json (all candidate mutations)
       mutate.py run K N [max]   -> worker K of N processes its share of the plan (results in .work/mut/res-K.jsonl)
       mutate.py report          -> summary table of all results
"""
import json, os, re, subprocess, sys, hashlib, time

ROOT = os.path.dirname(os.path.dirname(os.path.abspath(__file__)))
WORK = os.path.join(ROOT, ".work", "mut")
REPO = "/repo"
ENV = dict(os.environ, GOFLAGS="-mod=mod", GOPROXY="off", GOSUMDB="off", GOTOOLCHAIN="local")

# file (relative to /repo) -> (module test packages, properties whose quick check is run)
TARGETS = {
    "x/storage/keeper/msg_server_postproof.go": ("./x/storage/...", ["C01", "C02", "C17"]),
    "x/storage/keeper/rewards.go": ("./x/storage/...", ["C03", "C02", "C12"]),
    "x/storage/keeper/msg_server_buy_storage.go": ("./x/storage/...", ["C04", "C07"]),
    "x/storage/keeper/msg_server_post_file.go": ("./x/storage/...", ["C07", "C04", "C17"]),
    "x/storage/keeper/msg_server_file_delete.go": ("./x/storage/...", ["C07", "C17", "C11"]),
    "x/storage/keeper/msg_server_attest.go": ("./x/storage/...", ["C14"]),
    "x/storage/keeper/msg_server_report.go": ("./x/storage/...", ["C14"]),
    "x/storage/keeper/msg_server_init_provider.go": ("./x/storage/...", ["C15"]),
    "x/storage/keeper/collateral.go": ("./x/storage/...", ["C15"]),
    "x/storage/keeper/gauges.go": ("./x/storage/...", ["C12", "C04"]),
    "x/storage/keeper/files.go": ("./x/storage/...", ["C17", "C07"]),
    "x/storage/keeper/proofs.go": ("./x/storage/...", ["C17", "C01"]),
    "x/storage/keeper/providers.go": ("./x/storage/...", ["C14"]),
    "x/storage/keeper/utils.go": ("./x/storage/...", ["C04", "C02"]),
    "x/storage/types/file.go": ("./x/storage/...", ["C02", "C01", "C17"]),
    "x/storage/types/file_deal.go": ("./x/storage/...", ["C02", "C01"]),
    "x/rns/keeper/msg_server_register.go": ("./x/rns/...", ["C16", "C08"]),
    "x/rns/keeper/msg_server_bid.go": ("./x/rns/...", ["C09"]),
    "x/rns/keeper/msg_server_accept_bid.go": ("./x/rns/...", ["C09", "C08"]),
    "x/rns/keeper/msg_server_cancel_bid.go": ("./x/rns/...", ["C09"]),
    "x/rns/keeper/msg_server_buy.go": ("./x/rns/...", ["C08"]),
    "x/rns/keeper/msg_server_list.go": ("./x/rns/...", ["C08"]),
    "x/rns/keeper/msg_server_delist.go": ("./x/rns/...", ["C08"]),
    "x/rns/keeper/msg_server_transfer.go": ("./x/rns/...", ["C08"]),
    "x/rns/keeper/msg_server_update.go": ("./x/rns/...", ["C08"]),
    "x/rns/keeper/msg_server_add_record.go": ("./x/rns/...", ["C08"]),
    "x/rns/keeper/msg_server_del_record.go": ("./x/rns/...", ["C08"]),
    "x/rns/keeper/msg_server_init.go": ("./x/rns/...", ["C08"]),
    "x/rns/keeper/names.go": ("./x/rns/...", ["C08", "C16"]),
    "x/rns/keeper/bids.go": ("./x/rns/...", ["C09"]),
    "x/rns/types/tlds.go": ("./x/rns/...", ["C16"]),
    "x/rns/keeper/utils.go": ("./x/rns/...", ["C16", "C08"]),
    "x/filetree/keeper/msg_server_post_file.go": ("./x/filetree/...", ["C10"]),
    "x/filetree/keeper/msg_server_delete_file.go": ("./x/filetree/...", ["C10"]),
    "x/filetree/keeper/msg_server_change_owner.go": ("./x/filetree/...", ["C10"]),
    "x/filetree/keeper/msg_server_add_editors.go": ("./x/filetree/...", ["C10"]),
    "x/filetree/keeper/msg_server_remove_editors.go": ("./x/filetree/...", ["C10"]),
    "x/filetree/keeper/msg_server_reset_editors.go": ("./x/filetree/...", ["C10"]),
    "x/filetree/keeper/msg_server_add_viewers.go": ("./x/filetree/...", ["C10"]),
    "x/filetree/keeper/msg_server_remove_viewers.go": ("./x/filetree/...", ["C10"]),
    "x/filetree/keeper/msg_server_reset_viewers.go": ("./x/filetree/...", ["C10"]),
    "x/filetree/keeper/msg_server_make_root.go": ("./x/filetree/...", ["C10"]),
    "x/filetree/keeper/access.go": ("./x/filetree/...", ["C10"]),
    "x/filetree/keeper/files.go": ("./x/filetree/...", ["C10"]),
    "x/filetree/types/types.go": ("./x/filetree/...", ["C10"]),
    "x/filetree/types/merkle-paths.go": ("./x/filetree/...", ["C20"]),
    "x/notifications/keeper/msg_server_create_notifications.go": ("./x/notifications/...", ["C18"]),
    "x/notifications/keeper/msg_server_delete_notifications.go": ("./x/notifications/...", ["C18"]),
    "x/notifications/keeper/msg_server_block_senders.go": ("./x/notifications/...", ["C18"]),
    "x/notifications/keeper/notifications.go": ("./x/notifications/...", ["C18"]),
    "x/notifications/keeper/blocks.go": ("./x/notifications/...", ["C18"]),
    "x/notifications/types/keys.go": ("./x/notifications/...", ["C18"]),
    "x/jklmint/keeper/mint.go": ("./x/jklmint/...", ["C13"]),
    "x/jklmint/keeper/keeper.go": ("./x/jklmint/...", ["C13"]),
    "x/oracle/keeper/msg_server_feeds.go": ("./x/oracle/...", ["C11"]),
    "x/storage/keeper/msg_server_provider_claim.go": ("./x/storage/...", ["C11"]),
    "x/storage/keeper/msg_server_set_provider_ip.go": ("./x/storage/...", ["C11"]),
    "x/storage/keeper/msg_server_set_provider_totalspace.go": ("./x/storage/...", ["C11"]),
    "x/storage/types/message_post_file.go": ("./x/storage/...", ["C05"]),
    "x/storage/types/message_buy_storage.go": ("./x/storage/...", ["C05", "C11"]),
    "x/storage/keeper/attestations.go": ("./x/storage/...", ["C14"]),
    "x/storage/keeper/reports.go": ("./x/storage/...", ["C14"]),
    "x/storage/keeper/payment_info.go": ("./x/storage/...", ["C07", "C04"]),
}

TARGETS.update({
    "x/storage/genesis.go": ("./x/storage/...", ["C19"]),
    "x/rns/genesis.go": ("./x/rns/...", ["C19"]),
    "x/filetree/genesis.go": ("./x/filetree/...", ["C19"]),
    "x/notifications/genesis.go": ("./x/notifications/...", ["C19"]),
    "x/oracle/genesis.go": ("./x/oracle/...", ["C19"]),
    "x/jklmint/genesis.go": ("./x/jklmint/...", ["C19"]),
    "x/storage/types/genesis.go": ("./x/storage/...", ["C19"]),
    "x/rns/types/genesis.go": ("./x/rns/...", ["C19"]),
    "x/storage/keeper/msg_server_set_provider_keybase.go": ("./x/storage/...", ["C11"]),
    "x/rns/keeper/msg_server_cancel_bid.go": ("./x/rns/...", ["C09"]),
    "x/notifications/keeper/grpc_query_notifications.go": ("./x/notifications/...", ["C18"]),
})
# statement deletion: a line that is a bare call on the keeper / a record / the bank keeper (no assignment, no return)
DEL_LINE = re.compile(r"^\s*(k|file|f|proof|whois|form|am\.keeper|k\.bankKeeper|keeper)\.[A-Za-z]+\(.*\)\s*(//.*)?$")

# (regex on code part of the line, replacement) ; applied to one occurrence at a time
MUTS = [
    (r"<=", "<"), (r">=", ">"), (r"(?<![<>=!])<(?![=<-])", "<="), (r"(?<![<>=!-])>(?![=>])", ">="),
    (r"==", "!="), (r"!=", "=="), (r"&&", "||"), (r"\|\|", "&&"),
    (r"(?<=[\w)\]]) \+ (?=[\w(])", " - "), (r"(?<=[\w)\]]) - (?=[\w(])", " + "),
    (r"\+=", "-="), (r"-=", "+="), (r"(?<=[\w)\]]) \* (?=[\w(])", " / "),
    (r"\.Add\(", ".Sub("), (r"\.Sub\(", ".Add("), (r"\.GT\(", ".GTE("), (r"\.LT\(", ".LTE("), (r"\.GTE\(", ".GT("), (r"\.LTE\(", ".LT("),
    (r"(?<![\w)\]])!(?=[a-zA-Z_(])", ""),
]
SKIP_LINE = re.compile(r"^\s*(//|import|package|\"|ctx\.Logger|fmt\.Print|defer telemetry|\))|Logger\(\)|EmitEvent|NewAttribute|err != nil|err == nil|^\s*return .*(sdkerrors\.|fmt\.Errorf)")


def code_part(line):
    i = line.find("//")
    return line if i < 0 else line[:i]


def plan():
    out = []
    for f, (pkgs, props) in TARGETS.items():
        p = os.path.join(REPO, f)
        if not os.path.exists(p):
            continue
        lines = open(p).read().split("\n")
        infunc = False
        for ln, line in enumerate(lines):
            if line.startswith("func "):
                infunc = True
            if infunc and DEL_LINE.match(line) and "Logger" not in line and "EmitEvent" not in line:
                mid = hashlib.sha1(f"{f}:{ln}:del".encode()).hexdigest()[:8]
                out.append({"id": mid, "file": f, "line": ln + 1, "old": line.strip(), "new": "// (deleted) " + line.strip(), "new_raw": "", "pkgs": pkgs, "props": props, "kind": "del"})
            if not infunc or SKIP_LINE.search(line):
                continue
            code = code_part(line)
            # skip string literals crudely: mutate only outside double quotes
            for rx, rep in MUTS:
                for m in re.finditer(rx, code):
                    if code[:m.start()].count('"') % 2 == 1:
                        continue
                    new = line[:m.start()] + rep + line[m.end():]
                    mid = hashlib.sha1(f"{f}:{ln}:{m.start()}:{rep}".encode()).hexdigest()[:8]
                    out.append({"id": mid, "file": f, "line": ln + 1, "old": line.strip(), "new": new.strip(), "new_raw": new, "pkgs": pkgs, "props": props})
    os.makedirs(WORK, exist_ok=True)
    json.dump(out, open(os.path.join(WORK, "plan.json"), "w"), indent=0)
    print(len(out), "candidate mutations in", len({m['file'] for m in out}), "files")


def sh(cmd, cwd, timeout=1200):
    try:
        p = subprocess.run(cmd, cwd=cwd, env=ENV, stdout=subprocess.PIPE, stderr=subprocess.STDOUT, text=True, timeout=timeout)
        return p.returncode, p.stdout
    except subprocess.TimeoutExpired:
        return 124, "timeout"


def run(k, n, maxn=None):
    planl = json.load(open(os.path.join(WORK, "plan.json")))
    mine = [m for i, m in enumerate(planl) if i % n == k]
    if maxn:
        mine = mine[:maxn]
    done = set()
    resf = os.path.join(WORK, f"res-{k}.jsonl")
    for fn in os.listdir(WORK):   # results of every worker of every earlier campaign
        if fn.startswith("res-"):
            done |= {json.loads(l)["id"] for l in open(os.path.join(WORK, fn))}
    wt = f"/tmp/wt/mut-{k}"
    subprocess.run(["git", "-C", REPO, "worktree", "remove", "--force", wt], stdout=subprocess.DEVNULL, stderr=subprocess.DEVNULL)
    subprocess.run(["git", "-C", REPO, "worktree", "add", "-q", "--detach", wt, "HEAD"], check=True)
    try:
        for m in mine:
            if m["id"] in done:
                continue
            subprocess.run(["git", "checkout", "-q", "--", "."], cwd=wt)
            p = os.path.join(wt, m["file"])
            lines = open(p).read().split("\n")
            lines[m["line"] - 1] = m["new_raw"]
            open(p, "w").write("\n".join(lines))
            res = {"id": m["id"], "file": m["file"], "line": m["line"], "old": m["old"], "new": m["new"], "props": m["props"]}
            t0 = time.time()
            rc, out = sh(["go", "build", "./..."], wt)
            if rc != 0:
                res["status"] = "nocompile"
            else:
                rc, out = sh(["go", "test", "-vet=off", "-count=1", m["pkgs"]], wt)
                if rc != 0:
                    res["status"] = "killed_by_existing_tests"
                else:
                    res["status"] = "survived_tests"
                    caught = {}
                    for pid in m["props"]:
                        e = dict(ENV, VERIF_REPO=wt, VERIF_EVIDENCE_DIR=os.path.join(WORK, f"ev-{k}"))
                        pr = subprocess.run(["python3", "check.py", pid, "--tier", "quick"], cwd=ROOT, env=e, stdout=subprocess.PIPE, stderr=subprocess.STDOUT, text=True)
                        forms = re.findall(r"^  formula (\S+) fails", pr.stdout, re.M)
                        drift = len(re.findall(r"^DRIFT", pr.stdout, re.M))
                        caught[pid] = {"rc": pr.returncode, "formulas": forms[:3], "drift": drift,
                                       "infra": (re.findall(r"INFRA-ERROR.*", pr.stdout) or [""])[0][:200]}
                        if pr.returncode == 1:
                            break   # one check firing is enough
                    res["checks"] = caught
                    res["status"] = "caught" if any(c["rc"] == 1 for c in caught.values()) else \
                                    ("infra" if any(c["rc"] == 2 for c in caught.values()) else
                                     ("drift_only" if any(c["drift"] for c in caught.values()) else "missed"))
            res["secs"] = round(time.time() - t0)
            with open(resf, "a") as fh:
                fh.write(json.dumps(res) + "\n")
            print(k, res["status"], m["file"], m["line"], m["new"][:80], flush=True)
    finally:
        subprocess.run(["git", "-C", REPO, "worktree", "remove", "--force", wt], stdout=subprocess.DEVNULL, stderr=subprocess.DEVNULL)


def report():
    rows = []
    for f in sorted(os.listdir(WORK)):
        if f.startswith("res-"):
            rows += [json.loads(l) for l in open(os.path.join(WORK, f))]
    from collections import Counter
    c = Counter(r["status"] for r in rows)
    print("total", len(rows), dict(c))
    for st in ("missed", "drift_only", "infra"):
        for r in rows:
            if r["status"] == st:
                print(st, r["id"], r["file"], r["line"], "|", r["old"][:90], "=>", r["new"][:90], "|", {p: (v["rc"], v["drift"]) for p, v in r.get("checks", {}).items()})


if __name__ == "__main__":
    if sys.argv[1] == "plan":
        plan()
    elif sys.argv[1] == "run":
        run(int(sys.argv[2]), int(sys.argv[3]), int(sys.argv[4]) if len(sys.argv) > 4 else None)
    else:
        report()

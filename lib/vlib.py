"""Shared machinery: TLC runner, harness build, scenario extraction, trace validation, evidence."""
import hashlib
import json
import os
import re
import shutil
import subprocess
import sys
import time
from concurrent.futures import ThreadPoolExecutor

ROOT = os.path.dirname(os.path.dirname(os.path.abspath(__file__)))
SPEC = os.path.join(ROOT, "spec")
HARNESS = os.path.join(ROOT, "harness")
REPO = os.environ.get("VERIF_REPO", "/repo")
TLA_CP = "/opt/veriftools/tla/tla2tools.jar:/opt/veriftools/tla/CommunityModules-deps.jar"
NCPU = os.cpu_count() or 8
# experiments on scratch worktrees write their evidence elsewhere, never over the evidence of /repo
EVID = os.environ.get("VERIF_EVIDENCE_DIR") if REPO != "/repo" and os.environ.get("VERIF_EVIDENCE_DIR") else os.path.join(ROOT, "evidence")


class Infra(Exception):
    """Infrastructure failure: exit 2, never a violation."""


def log(*a):
    print(*a, flush=True)


def goenv():
    e = dict(os.environ)
    e.update(GOFLAGS="-mod=mod", GOPROXY="off", GOSUMDB="off", GOTOOLCHAIN="local")
    return e


def build_harness(work):
    """Builds vh against the current working tree of /repo (tag verif).
    VERIF_REPO (experiments on scratch worktrees only, e.g. seeded changes) redirects the module replacement
    through a private copy of go.mod; the registered checks always build against /repo."""
    t0 = time.time()
    out = os.path.join(work, "vh")
    cmd = ["go", "build", "-tags", "verif", "-o", out]
    if REPO == "/repo":
        shutil.copy(os.path.join(REPO, "go.sum"), os.path.join(HARNESS, "go.sum"))
    else:
        mod = open(os.path.join(HARNESS, "go.mod")).read().replace("canine-chain/v4 => /repo", "canine-chain/v4 => " + REPO)
        with open(os.path.join(work, "vh.mod"), "w") as fh:
            fh.write(mod)
        shutil.copy(os.path.join(REPO, "go.sum"), os.path.join(work, "vh.sum"))
        cmd += ["-modfile", os.path.join(work, "vh.mod")]
    p = subprocess.run(cmd + ["./cmd/vh"], cwd=HARNESS, env=goenv(),
                       stdout=subprocess.PIPE, stderr=subprocess.STDOUT, text=True)
    if p.returncode != 0:
        raise Infra("harness build failed (the repository tree may not compile):\n" + p.stdout[-4000:])
    log(f"[build] vh built in {time.time()-t0:.1f}s" + ("" if REPO == "/repo" else f" against {REPO}"))
    return out


def tlc(work, tag, module, cfg_text, args=(), timeout=900, heap="3g", workers=1):
    """Runs TLC on spec/<module>.tla with the given cfg text in a private directory. Returns stdout."""
    d = os.path.join(work, "tlc-" + tag)
    os.makedirs(d, exist_ok=True)
    for f in os.listdir(SPEC):
        if f.endswith(".tla"):
            shutil.copy(os.path.join(SPEC, f), d)
    with open(os.path.join(d, module + ".cfg"), "w") as fh:
        fh.write(cfg_text)
    cmd = ["java", "-XX:+UseParallelGC", "-Xmx" + heap, "-Xss128m", "-cp", TLA_CP, "tlc2.TLC",
           "-workers", str(workers), "-metadir", os.path.join(d, "md"), "-noGenerateSpecTE"] + list(args) + [module + ".tla"]
    try:
        p = subprocess.run(cmd, cwd=d, stdout=subprocess.PIPE, stderr=subprocess.STDOUT, text=True, timeout=timeout)
    except subprocess.TimeoutExpired:
        raise Infra(f"TLC timeout after {timeout}s: {tag}")
    with open(os.path.join(d, "out.txt"), "w") as fh:
        fh.write(p.stdout)
    shutil.rmtree(os.path.join(d, "md"), ignore_errors=True)
    return p.stdout


def read_cfg(name, subst=None):
    s = open(os.path.join(SPEC, name)).read()
    for k, v in (subst or {}).items():
        s, n = re.subn(r"(?m)^(\s*)" + re.escape(k) + r"\s*=\s*.*$", lambda m: m.group(1) + k + " = " + v, s)
        if n == 0:
            raise Infra(f"cfg {name}: no line for constant {k}")
    return s


def tla_set(xs):
    return "{" + ", ".join('"%s"' % x for x in xs) + "}"


def parse_mc(out):
    """Parses an exhaustive/simulation TLC run."""
    r = {"ok": False, "generated": 0, "distinct": 0, "depth": 0, "violated": None, "error": None}
    m = re.search(r"(\d[\d,]*) states generated, (\d[\d,]*) distinct states found", out)
    if m:
        r["generated"] = int(m.group(1).replace(",", ""))
        r["distinct"] = int(m.group(2).replace(",", ""))
    m = re.search(r"depth of the complete state graph search is (\d+)", out)
    if m:
        r["depth"] = int(m.group(1))
    if "Model checking completed. No error has been found." in out:
        r["ok"] = True
    m = re.search(r"(?:Action property|Invariant|Temporal properties?) (\w+)? ?(?:is|were) violated", out)
    if m:
        r["violated"] = m.group(1) or "temporal"
    elif "Error:" in out and not r["ok"]:
        r["error"] = out[out.index("Error:"):][:1500]
    return r


def extract_scn(out):
    """Extracts the scenarios printed by PrintT(<<"SCN", ToJson(hist)>>), de-duplicated, order kept."""
    seen, res = set(), []
    for line in out.splitlines():
        if not line.startswith('<<"SCN", "'):
            continue
        body = line[len('<<"SCN", "'):]
        if not body.endswith('">>'):
            continue
        body = re.sub(r"\\(.)", r"\1", body[:-3])
        if body in seen:
            continue
        seen.add(body)
        try:
            res.append(json.loads(body))
        except Exception as e:  # noqa
            raise Infra(f"cannot parse scenario: {e}: {body[:300]}")
    return res


def merge_pair(path_a, path_b, out):
    """Zips two recordings of the same history (two independent executions) into one trace with A/B observations."""
    la, lb = load_lines(path_a), load_lines(path_b)
    n = max(len(la), len(lb))
    with open(out, "w") as fh:
        for i in range(n):
            ea = la[i] if i < len(la) else {"a": "missing"}
            eb = lb[i] if i < len(lb) else {"a": "missing"}
            if ea.get("a") == "reset" and eb.get("a") == "reset":
                fh.write(json.dumps({"a": "reset", "post": {}, "x": ea.get("x", {})}) + "\n")
                continue
            a = ea.get("a") if ea.get("a") in ("tx", "block") else "tx"
            fh.write(json.dumps({"a": a, "A": {k: v for k, v in ea.items() if k not in ("post",)},
                                 "B": {k: v for k, v in eb.items() if k not in ("post",)}}) + "\n")
    return out


def run_vh(vh, family, work, tag, scenarios, nrand, rlen, seed, cfg, env=None, idx=0):
    """Runs the harness on a list of scenarios plus nrand random histories; returns trace path and stats."""
    scn = os.path.join(work, f"scn-{tag}.jsonl")
    with open(scn, "w") as fh:
        for s in scenarios:
            fh.write(json.dumps(s) + "\n")
    out = os.path.join(work, f"trace-{tag}.ndjson")
    cmd = [vh, family, "-seed", str(seed), "-out", out, "-scn", scn, "-random", str(nrand), "-len", str(rlen),
           "-cfg", json.dumps(cfg), "-idx", str(idx)]
    e = dict(os.environ)
    e.update(env or {})
    p = subprocess.run(cmd, stdout=subprocess.PIPE, stderr=subprocess.PIPE, text=True, timeout=3600, env=e)
    if p.returncode != 0:
        raise Infra(f"harness failed ({p.returncode}): {p.stderr[-3000:]}")
    m = re.search(r"VH family=\S+ scenarios=(\d+) steps=(\d+) lines=(\d+)", p.stdout)
    if not m:
        raise Infra("harness printed no summary: " + p.stdout[-2000:])
    mc = re.search(r" cut=(\d+)", p.stdout)
    return out, {"scenarios": int(m.group(1)), "steps": int(m.group(2)), "lines": int(m.group(3)), "cut": int(mc.group(1)) if mc else 0}


REP = re.compile(r'^<<"(VIOL|NT|DRIFT|KNOWN)", "([^"]*)", (\d+)>>$')


def validate_trace(work, tag, module, cfg_name, trace_path, timeout=1800, extra_subst=None):
    """TLC trace validation of one ndjson file. Returns dict(accepted, viol[], nt[], drift[], lines)."""
    subst = {"TraceFile": '"%s"' % trace_path}
    subst.update(extra_subst or {})
    cfg = read_cfg(cfg_name, subst)
    # TLC holds the whole deserialised trace in memory: small heaps for the small traces of the quick tier (several validations
    # run side by side), more for the long traces of the thorough tier
    try:
        big = os.path.getsize(trace_path) > 12_000_000
    except OSError:
        big = False
    out = tlc(work, "tv-" + tag, module, cfg, timeout=timeout, heap="4g" if big else "2g", workers=1)
    res = {"accepted": False, "viol": set(), "nt": set(), "drift": set(), "known": set(), "n": 0, "out": out}
    for line in out.splitlines():
        m = REP.match(line.strip())
        if m:
            kind, name, l = m.group(1), m.group(2), int(m.group(3))
            res[{"VIOL": "viol", "NT": "nt", "DRIFT": "drift", "KNOWN": "known"}[kind]].add((name, l))
            continue
        m = re.match(r'^<<"ACCEPTED", (\d+)>>$', line.strip())
        if m:
            res["accepted"] = True
            res["n"] = int(m.group(1))
        m = re.match(r'^<<"REJECTED_AT", (\d+)>>$', line.strip())
        if m:
            res["rejected_at"] = int(m.group(1))
    if not res["accepted"]:
        tail = out[-3000:]
        raise Infra(f"trace validation did not consume the whole trace ({tag}); rejected_at={res.get('rejected_at')}\n{tail}")
    return res


def load_lines(path):
    with open(path) as fh:
        return [json.loads(x) for x in fh if x.strip()]


def scenario_origin(lines, l):
    """(seed, idx) of the scenario containing 1-based trace line l, as recorded by the harness in its reset line."""
    start = l - 1
    while start > 0 and lines[start].get("a") != "reset":
        start -= 1
    x = lines[start].get("x") or lines[start].get("A", {}).get("x") or {}
    return x.get("seed"), x.get("idx"), x.get("rlen", l - 1 - start)


def scenario_of(lines, l):
    """Steps of the scenario containing 1-based trace line l (labels without post/x), up to and including l."""
    i = l - 1
    start = i
    while start > 0 and lines[start].get("a") != "reset":
        start -= 1
    steps = []
    for e in lines[start + 1:i + 1]:
        steps.append({k: v for k, v in e.items() if k not in ("post", "x")})
    return steps


def step_digest(lines, l):
    """Digest of (pre-state, label, post-state) of 1-based line l, for counting distinct steps."""
    e = lines[l - 1]
    pre = lines[l - 2].get("post") if l >= 2 else None
    lab = {k: v for k, v in e.items() if k not in ("post", "x")}
    return hashlib.sha1(json.dumps([pre, lab, e.get("post")], sort_keys=True).encode()).hexdigest()


def parallel(fn, items, nworkers):
    with ThreadPoolExecutor(max_workers=nworkers) as ex:
        return list(ex.map(fn, items))


def write_evidence(pid, tier, seed, level, coverage, wall, violations, assumptions):
    os.makedirs(EVID, exist_ok=True)
    ev = {"property_id": pid, "tier": tier, "seed": seed, "level": level, "coverage": coverage,
          "assumptions": assumptions, "wall_s": round(wall, 1), "violations": violations}
    with open(os.path.join(EVID, pid + ".json"), "w") as fh:
        json.dump(ev, fh, indent=1, sort_keys=True)
        fh.write("\n")


def write_replay(pid, formula, family, vh_cfg, steps, extra=None):
    d = os.path.join(EVID, "replays")
    os.makedirs(d, exist_ok=True)
    body = {"property": pid, "formula": formula, "family": family, "vh_cfg": vh_cfg, "steps": steps}
    body.update(extra or {})
    h = hashlib.sha1(json.dumps(body, sort_keys=True).encode()).hexdigest()[:10]
    safe = re.sub(r"[^A-Za-z0-9_.-]+", "_", formula)
    path = os.path.join(d, f"{pid}-{safe}-{h}.json")
    with open(path, "w") as fh:
        json.dump(body, fh, indent=1)
        fh.write("\n")
    return path


def known_findings():
    p = os.path.join(ROOT, "known-findings.json")
    if not os.path.exists(p):
        return []
    return json.load(open(p)).get("findings", [])

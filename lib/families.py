"""Family and property tables: which spec, which configurations, which formulas decide what."""

COMMON_ASSUME = [
    "the Go harness projection (keeper getters, bank balances, raw KV reads) reports the real store faithfully",
    "router-mode delivery (ValidateBasic + MsgServiceRouter handler on a cache context, written back only on nil error) "
    "is equivalent to DeliverTx for the handlers' effects; a share of runs goes through signed DeliverTx where stated",
    "TLC evaluates the TLA+ property formulas correctly; exhaustive claims hold only within the stated constants",
]

FAMILIES = {
    "rns": {
        "fix_all": ["stale", "lapsed", "bid"],
        "mc": {"module": "MCRns", "cfg": {"quick": "Rns-mc-quick.cfg", "thorough": ["Rns-mc-quick.cfg", "Rns-mc-thorough.cfg"]},
               "bug_cfg": "Rns-mc-quick.cfg", "timeout": {"quick": 300, "thorough": 1500}},
        "sim": {"module": "SimRns", "cfg": "Rns-sim.cfg",
                "tiers": {"quick": {"num": 120, "depth": 30, "workers": 4}, "thorough": {"num": 4000, "depth": 40, "workers": 8, "timeout": 1800}}},
        "trace_module": "RnsTrace", "trace_cfg": "Rns-trace.cfg",
        "vh_cfg": {},
        "tiers": {"quick": {"rand": 200, "rlen": 40, "chunks": 8}, "thorough": {"rand": 6000, "rlen": 60, "chunks": 14}},
    },
}

PROPS = {
    "C08": {
        "family": "rns", "formulas": ["C08Step"], "nt": "C08",
        "bug_variants": [("stale", ["PC08"]), ("lapsed", ["PC08", "PC16"])],
        "rule": "a real step is non-trivial for C08 when a live name changes owner or a message about a live name is signed "
                "by an account that is not its owner; distinct = distinct (pre-state, message, post-state) triples",
        "assumptions": COMMON_ASSUME + ["name expiry is driven by overriding the context height (RNS handlers read only ctx.BlockHeight())"],
    },
    "C09": {
        "family": "rns", "formulas": ["C09Step", "C09_Escrow"], "nt": "C09",
        "bug_variants": [("bid", ["C09_Escrow", "PC09"])],
        "rule": "non-trivial = a successful bid/cancel/accept step executed while at least one bid is open; "
                "distinct = distinct (pre-state, message, post-state) triples",
        "assumptions": COMMON_ASSUME,
    },
    "C16": {
        "family": "rns", "formulas": ["C16Step"], "nt": "C16",
        "bug_variants": [("lapsed", ["PC16", "PC08"])],
        "rule": "non-trivial = a successful registration (new, renewal, or re-registration of a lapsed name); "
                "distinct = distinct (pre-state, message, post-state) triples",
        "assumptions": COMMON_ASSUME + ["name expiry is driven by overriding the context height (RNS handlers read only ctx.BlockHeight())"],
    },
}

"""Family and property tables: which spec, which configurations, which formulas decide what."""

COMMON_ASSUME = [
    "the Go harness projection (keeper getters, bank balances, raw KV reads) reports the real store faithfully",
    "router-mode delivery (ValidateBasic + MsgServiceRouter handler on a cache context, written back only on nil error) "
    "is equivalent to DeliverTx for the handlers' effects; a share of runs goes through signed DeliverTx where stated",
    "TLC evaluates the TLA+ property formulas correctly; exhaustive claims hold only within the stated constants",
]

FAMILIES = {
    "rns": {
        "fix_all": ["stale", "lapsed", "bid"],
        "mc": {"module": "MCRns", "cfg": {"quick": ["Rns-mc-quick.cfg", "Rns-mc-aux.cfg"], "thorough": ["Rns-mc-quick.cfg", "Rns-mc-aux.cfg", "Rns-mc-thorough.cfg"]},
               "bug_cfg": "Rns-mc-quick.cfg", "timeout": {"quick": 300, "thorough": 1500}},
        "sim": {"module": "SimRns", "cfg": "Rns-sim.cfg",
                "tiers": {"quick": {"num": 120, "depth": 30, "workers": 4}, "thorough": {"num": 2400, "depth": 40, "workers": 8, "timeout": 1800}}},
        "trace_module": "RnsTrace", "trace_cfg": "Rns-trace.cfg",
        "vh_cfg": {},
        # two name sets: label lengths 5 / 2 / 4 and 1 / 3 / 5 / 8, the latter two containing the letters of their own TLD: every price tier of both TLDs
        "variants": [{"vh_cfg": {}, "sim_subst": {}},
                     {"vh_cfg": {"names": ["x.jkl", "abc.jkl", "myjkl.jkl", "tokenibc.ibc"]},
                      "sim_subst": {"Names": '{"x.jkl", "abc.jkl", "myjkl.jkl", "tokenibc.ibc"}'}}],
        "tiers": {"quick": {"rand": 200, "rlen": 40, "chunks": 8}, "thorough": {"rand": 3600, "rlen": 60, "chunks": 14}},
    },
    "sd": {
        "fix_all": ["addprover", "walk", "repost"],
        "mc": {"module": "MCSD", "cfg": {"quick": "SD-mc-rewards-quick.cfg", "thorough": ["SD-mc-rewards-quick.cfg"]},
               "timeout": {"quick": 400, "thorough": 1800}},
        "sim": {"module": "SimSD", "cfg": "SD-sim.cfg",
                "tiers": {"quick": {"num": 100, "depth": 40, "workers": 4}, "thorough": {"num": 1200, "depth": 50, "workers": 8, "timeout": 2400}}},
        "trace_module": "SDTrace", "trace_cfg": "SD-trace.cfg",
        "variants": [
            {"vh_cfg": {"honest": "p1", "I": 3, "C": 4, "cs": 2, "fs": 2, "min": 2},
             "sim_subst": {"PI": "3", "PC": "4", "PCS": "2", "PFS": "2", "PMIN": "2"}},
            {"vh_cfg": {"honest": "p1", "I": 2, "C": 3, "cs": 1, "fs": 1, "min": 1},
             "sim_subst": {"PI": "2", "PC": "3", "PCS": "1", "PFS": "1", "PMIN": "1"}},
            {"vh_cfg": {"honest": "p1", "I": 4, "C": 2, "cs": 3, "fs": 3, "min": 2},
             "sim_subst": {"PI": "4", "PC": "2", "PCS": "3", "PFS": "3", "PMIN": "2"}},
            {"vh_cfg": {"honest": "p1", "I": 5, "C": 5, "cs": 2, "fs": 3, "min": 1},
             "sim_subst": {"PI": "5", "PC": "5", "PCS": "2", "PFS": "3", "PMIN": "1"}},
        ],
        "tiers": {"quick": {"rand": 200, "rlen": 60, "chunks": 8}, "thorough": {"rand": 3000, "rlen": 80, "chunks": 14}},
    },
    "sp": {
        "fix_all": ["ref", "space", "gaugeid", "sizes"],
        "mc": {"module": "MCSP", "cfg": {"quick": "SP-mc-pay-quick.cfg", "thorough": ["SP-mc-pay-quick.cfg"]},
               "timeout": {"quick": 400, "thorough": 1800}},
        "sim": {"module": "SimSP", "cfg": "SP-sim.cfg",
                "tiers": {"quick": {"num": 100, "depth": 40, "workers": 4}, "thorough": {"num": 1200, "depth": 50, "workers": 8, "timeout": 2400}}},
        "trace_module": "SPTrace", "trace_cfg": "SP-trace.cfg",
        # first variant: hour ticks, small amounts, at a realistic chain height (block-count arithmetic such as expiry - height only
        # shows its mistakes when the height is not close to zero); second variant: fine time, TB-scale deposits (C12 formulas only)
        "variants": [{"vh_cfg": {"h0": 5000002}, "sim_subst": {"H0": "5000002", "MAXH": "5000060"}},
                     {"vh_cfg": {"fine": True, "price": 15, "fund": 1200000000}, "sim_subst": {}}],
        "tiers": {"quick": {"rand": 300, "rlen": 50, "chunks": 8}, "thorough": {"rand": 3600, "rlen": 60, "chunks": 14}},
    },
    "mint": {
        "fix_all": ["clamp"],
        "mc": {"module": "MCMint", "cfg": {"quick": "Mint-mc-quick.cfg", "thorough": ["Mint-mc-quick.cfg"]}, "timeout": {"quick": 300, "thorough": 900}},
        "enum": {"module": "MCMint", "cfg": {"quick": "Mint-enum-quick.cfg", "thorough": "Mint-enum.cfg"},
                 "tiers": {"quick": {"depth": 14}, "thorough": {"depth": 14}}},
        "trace_module": "MintTrace", "trace_cfg": "Mint-trace.cfg",
        "vh_cfg": {},
        "tiers": {"quick": {"rand": 200, "rlen": 25, "chunks": 8}, "thorough": {"rand": 1800, "rlen": 40, "chunks": 14}},
    },
    "ft": {
        "fix_all": None,
        "mc": {"module": "MCFT", "cfg": {"quick": "FT-mc-quick.cfg", "thorough": ["FT-mc-quick.cfg", "FT-mc-thorough-a.cfg", "FT-mc-thorough-b.cfg", "FT-mc-thorough-c.cfg"]}, "timeout": {"quick": 300, "thorough": 1800}},
        "sim": {"module": "SimFT", "cfg": "FT-sim.cfg",
                "tiers": {"quick": {"num": 100, "depth": 30, "workers": 4}, "thorough": {"num": 1800, "depth": 40, "workers": 8, "timeout": 2400}}},
        "trace_module": "FTTrace", "trace_cfg": "FT-trace.cfg",
        "vh_cfg": {},
        "tiers": {"quick": {"rand": 300, "rlen": 40, "chunks": 8}, "thorough": {"rand": 3600, "rlen": 60, "chunks": 14}},
    },
    "mp": {
        "fix_all": None,
        "mc": {"module": "MCMP", "cfg": {"quick": "MP-mc-quick.cfg", "thorough": ["MP-mc-quick.cfg", "MP-mc-thorough.cfg"]}, "timeout": {"quick": 300, "thorough": 1800}},
        "trace_module": "MPTrace", "trace_cfg": "MP-trace.cfg",
        "variants": [{"vh_cfg": {"L": 6}, "sim_subst": {}}],
        "tiers": {"quick": {"rand": 8, "rlen": 100000, "chunks": 8}, "thorough": {"rand": 8, "rlen": 100000, "chunks": 8, "vh_cfg": {"L": 8}}},
    },
    "notif": {
        "fix_all": ["blockentry", "overwrite"], "trace_fix": [],
        "mc": {"module": "MCNotif", "cfg": {"quick": "Notif-mc-quick.cfg", "thorough": ["Notif-mc-quick.cfg", "Notif-mc-thorough.cfg"]}, "timeout": {"quick": 300, "thorough": 1800}},
        "sim": {"module": "SimNotif", "cfg": "Notif-sim.cfg",
                "tiers": {"quick": {"num": 100, "depth": 30, "workers": 4}, "thorough": {"num": 1800, "depth": 40, "workers": 8, "timeout": 2400}}},
        "trace_module": "NotifTrace", "trace_cfg": "Notif-trace.cfg",
        "vh_cfg": {},
        "tiers": {"quick": {"rand": 300, "rlen": 40, "chunks": 8}, "thorough": {"rand": 3600, "rlen": 60, "chunks": 14}},
    },
    "gen": {
        "fix_all": ["storage/FileProof", "rns/PrimaryName", "notification/Block", "jklmint/MintedBlock"], "trace_fix": None,
        "mc": {"module": "Genesis", "cfg": {"quick": "Genesis-mc.cfg", "thorough": ["Genesis-mc.cfg"]}, "timeout": {"quick": 300, "thorough": 600}},
        "trace_module": "GenTrace", "trace_cfg": "Gen-trace.cfg",
        "vh_cfg": {},
        "tiers": {"quick": {"rand": 48, "rlen": 2, "chunks": 8}, "thorough": {"rand": 900, "rlen": 2, "chunks": 14}},
    },
    "chain": {
        "fix_all": ["sizes"], "trace_fix": None, "seeded_replay": True,
        "mc": {"module": "MCChain", "cfg": {"quick": "Chain-mc-quick.cfg", "thorough": ["Chain-mc-quick.cfg"]}, "timeout": {"quick": 300, "thorough": 900}},
        "trace_module": "ChainTrace", "trace_cfg": "Chain-trace.cfg",
        "vh_cfg": {},
        "tiers": {"quick": {"rand": 48, "rlen": 120, "chunks": 8}, "thorough": {"rand": 720, "rlen": 200, "chunks": 14}},
    },
    "ledger": {   # whole-application token ledger (spec/Ledger.tla) on ABCI histories of the assembled app
        "fix_all": ["refund", "passfee", "fullmint"], "seeded_replay": True, "vh_family": "chain",
        "mc": {"module": "MCLedger", "cfg": {"quick": ["Ledger-mc-quick.cfg"], "thorough": ["Ledger-mc-quick.cfg", "Ledger-mc-2d.cfg", "Ledger-mc-thorough.cfg"]},
               "timeout": {"quick": 300, "thorough": 900}},
        "trace_module": "LedgerTrace", "trace_cfg": "Ledger-trace.cfg",
        "vh_cfg": {"ledger": True},
        "tiers": {"quick": {"rand": 48, "rlen": 150, "chunks": 8}, "thorough": {"rand": 720, "rlen": 200, "chunks": 14}},
    },
    "src": {   # source scan: no wall-clock / process-global randomness in module code (assumption behind C06's double execution)
        "fix_all": ["sizes"], "trace_fix": None, "needs_repo": True,
        "mc": {"module": "MCChain", "cfg": {"quick": ["Chain-mc-quick.cfg"], "thorough": ["Chain-mc-quick.cfg"]}, "timeout": {"quick": 300, "thorough": 900}},
        "trace_module": "SrcTrace", "trace_cfg": "Src-trace.cfg",
        "vh_cfg": {},
        "tiers": {"quick": {"rand": 1, "rlen": 5000, "chunks": 1}, "thorough": {"rand": 1, "rlen": 5000, "chunks": 1}},
    },
    "auth": {
        "fix_all": None,
        "mc": {"module": "Auth", "cfg": {"quick": "Auth-mc.cfg", "thorough": ["Auth-mc.cfg"]}, "timeout": {"quick": 120, "thorough": 300}},
        "trace_module": "AuthTrace", "trace_cfg": "Auth-trace.cfg",
        "vh_cfg": {},
        "tiers": {"quick": {"rand": 1, "rlen": 100000, "chunks": 1}, "thorough": {"rand": 1, "rlen": 100000, "chunks": 1}},
    },
    "own": {
        "fix_all": None,
        "mc": {"module": "MCOwn", "cfg": {"quick": ["Own-mc-quick.cfg", "Own-mc-notif.cfg"], "thorough": ["Own-mc-quick.cfg", "Own-mc-notif.cfg", "Own-mc-thorough.cfg"]}, "timeout": {"quick": 300, "thorough": 900}},
        "trace_module": "OwnTrace", "trace_cfg": "Own-trace.cfg",
        "vh_cfg": {},
        "tiers": {"quick": {"rand": 300, "rlen": 50, "chunks": 8}, "thorough": {"rand": 3600, "rlen": 60, "chunks": 14}},
    },
}

SP_ASSUME = COMMON_ASSUME + [
    "block boundaries are executed at keeper level (storage.BeginBlocker on a cache context); block times are whole hours after the base block",
    "sizes are multiples of 10^6 bytes; storage price parameter 1 USD/TB/month so that every amount and amount*ticks product fits TLC's 32-bit integers",
    "the chain's tariff (GetStorageCost / UpgradeStorage / GetStorageCostKbs, exported keeper methods evaluated in the same state) is an input",
]

SD_ASSUME = COMMON_ASSUME + [
    "block boundaries are executed at keeper level (storage.BeginBlocker on a cache context with height+1 and time+1 day)",
    "ground truth about proof payloads comes from the harness, which builds them with the repository's BuildTree / go-merkletree",
    "file sizes >= 1 and replication >= 1 in this family (boundary values belong to C05/C07)",
]

# files of up to 40 chunks of one byte (challenge indexes with two digits, beyond 16): used by C01 and C02
_SD_MANYCHUNKS = {"vh_cfg": {"honest": "p1", "I": 3, "C": 4, "cs": 1, "fs": 2, "min": 2, "maxchunks": 40},
                  "sim_subst": {"PI": "3", "PC": "4", "PCS": "1", "PFS": "2", "PMIN": "2"}}
PROPS = {
    "C08": {
        "family": "rns", "formulas": ["C08Step"], "nt": "C08",
        "bug_variants": [("stale", ["PC08"]), ("lapsed", ["PC08", "PC16"])],
        "rule": "a real step is non-trivial for C08 when a live name changes owner or a message about a live name is signed "
                "by an account that is not its owner; distinct = distinct (pre-state, message, post-state) triples",
        "assumptions": COMMON_ASSUME + ["name expiry is driven by overriding the context height (RNS handlers read only ctx.BlockHeight())"],
    },
    "C09": {
        "family": "rns", "formulas": ["C09Step", "C09_Escrow"], "nt": "C09",
        "bug_variants": [("bid", ["C09_Escrow", "PC09"])],
        "rule": "non-trivial = a successful bid/cancel/accept step executed while at least one bid is open; "
                "distinct = distinct (pre-state, message, post-state) triples",
        "assumptions": COMMON_ASSUME,
    },
    "C16": {
        "family": "rns", "formulas": ["C16Step", "C16_Listed"], "nt": "C16",
        "bug_variants": [("lapsed", ["PC16", "PC08"])],
        "rule": "non-trivial = a successful registration (new, renewal, or re-registration of a lapsed name); "
                "distinct = distinct (pre-state, message, post-state) triples",
        "assumptions": COMMON_ASSUME + ["name expiry is driven by overriding the context height (RNS handlers read only ctx.BlockHeight())"],
    },
    "C01": {
        "family": "sd", "formulas": ["C01_Listed", "C01_NoEffect", "C01_Paid", "C14_Quorum"], "nt": "C01",   # C14_Quorum: the "completed attestation quorum" clause of C01
        # a fifth parameter variant with dense attestation / report traffic (repeated and foreign signatures) for that clause
        "extra_variants": [{"vh_cfg": {"honest": "p1", "I": 3, "C": 4, "cs": 2, "fs": 2, "min": 2, "mode": "forms"},
                            "sim_subst": {"PI": "3", "PC": "4", "PCS": "2", "PFS": "2", "PMIN": "2"}},
                           _SD_MANYCHUNKS],
        "mc_cfg": {"quick": ["SD-mc-rewards-quick.cfg"], "thorough": ["SD-mc-rewards-quick.cfg", "SD-mc-rewards-thorough.cfg"]},
        "bug_variants": [("addprover", ["C01_Listed", "PC01a", "PC01b"], "SD-mc-rewards-quick.cfg")],
        "rule": "non-trivial = a post-proof step whose payload is NOT a valid proof of the stored challenge (junk, other file, bit flip, "
                "truncated path, other chunk, unknown/full file), or a reward block in which some account's balance rises; "
                "distinct = distinct (pre-state, message, post-state) triples",
        "assumptions": SD_ASSUME,
    },
    "C02": {
        "family": "sd", "formulas": ["C02_ChallengeInRange", "C02_HonestAccepted", "C02_HonestKept"], "nt": "C02",
        "extra_variants": [_SD_MANYCHUNKS],
        "mc_cfg": {"quick": ["SD-mc-rewards-quick.cfg"], "thorough": ["SD-mc-rewards-quick.cfg", "SD-mc-rewards-thorough.cfg"]},
        "bug_variants": [],
        "rule": "non-trivial = a reward block on a file past its first window that still lists a prover which has had a valid proof "
                "accepted in every completed proof window; distinct = distinct (pre-state, block, post-state) triples",
        "assumptions": SD_ASSUME + ["the honest prover of the random driver proves once per window before the window closes"],
    },
    "C03": {
        "family": "sd", "formulas": ["C03_Reward"], "nt": "C03",
        "mc_cfg": {"quick": ["SD-mc-rewards-quick.cfg"], "thorough": ["SD-mc-rewards-quick.cfg", "SD-mc-rewards-thorough.cfg"]},
        "bug_variants": [("walk", ["PC03"], "SD-mc-rewards-3p.cfg")],
        "rule": "non-trivial = a reward block with at least one listed prover and a positive amount released from gauges; "
                "distinct = distinct (pre-state, block, post-state) triples",
        "assumptions": SD_ASSUME,
    },
    "C14": {
        "family": "sd", "formulas": ["C14_Quorum", "C14_FormShape"], "nt": "C14", "vh_cfg": {"mode": "forms"},
        "mc_cfg": {"quick": ["SD-mc-quorum-quick.cfg"], "thorough": ["SD-mc-quorum-quick.cfg"]},
        "bug_variants": [],
        "rule": "non-trivial = an attest/report signature on an existing form, or a successful form request; "
                "distinct = distinct (pre-state, message, post-state) triples",
        "assumptions": SD_ASSUME,
    },
    "C15": {
        "family": "sd", "formulas": ["C15_Backed", "C15_Step"], "nt": "C15",
        "mc_cfg": {"quick": ["SD-mc-coll-quick.cfg"], "thorough": ["SD-mc-coll-quick.cfg"]},
        "bug_variants": [],
        "rule": "non-trivial = a successful provider init or shutdown; distinct = distinct (pre-state, message, post-state) triples",
        "assumptions": SD_ASSUME + ["collateral price changes are applied through the params keeper, not a governance proposal"],
    },
    "C17": {
        "family": "sd", "formulas": ["C17_Indexes", "C17_Lists", "C17_Queries"], "nt": "C17",
        "mc_cfg": {"quick": ["SD-mc-rewards-quick.cfg", "SD-mc-quorum-quick.cfg"], "thorough": ["SD-mc-rewards-quick.cfg", "SD-mc-quorum-quick.cfg", "SD-mc-rewards-thorough.cfg"]},
        "bug_variants": [],
        "rule": "non-trivial = a step that changes the file set, a prover list or a proof record; "
                "distinct = distinct (pre-state, message, post-state) triples",
        "assumptions": SD_ASSUME,
    },
    "C04": {
        "family": "sp", "formulas": ["C04_Buy", "C04_PayOnce", "C04_Other"], "nt": "C04",
        "mc_cfg": {"quick": ["SP-mc-pay-quick.cfg"], "thorough": ["SP-mc-pay-quick.cfg", "SP-mc-space-quick.cfg", "SP-mc-pay-thorough.cfg"]},
        "bug_variants": [("ref", ["PC04"], "SP-mc-pay-quick.cfg"), ("gaugeid", ["PC04"], "SP-mc-pay-quick.cfg")],
        "rule": "non-trivial = a plan purchase or pay-once post (successful or refused); distinct = distinct (pre-state, message, post-state) triples",
        "assumptions": SP_ASSUME,
    },
    "C07": {
        "family": "sp", "formulas": ["C07_Used", "C07_Reject"], "nt": "C07",
        "mc_cfg": {"quick": ["SP-mc-space-quick.cfg"], "thorough": ["SP-mc-space-quick.cfg"]},
        "bug_variants": [("space", ["C07_Used", "PC07"], "SP-mc-space-quick.cfg"), ("sizes", ["C07_Used", "PC07"], "SP-mc-space-neg.cfg")],
        "rule": "non-trivial = a post or delete by an account that holds a plan, or a reward block in which the chain drops a file; "
                "distinct = distinct (pre-state, message, post-state) triples",
        "assumptions": SP_ASSUME,
    },
    "C12": {
        "family": "sp", "formulas": ["C12_Gauges", "C12_Exact"], "nt": "C12",
        "mc_cfg": {"quick": ["SP-mc-pay-quick.cfg"], "thorough": ["SP-mc-pay-quick.cfg", "SP-mc-pay-thorough.cfg"]},
        "bug_variants": [("gaugeid", ["PC12"], "SP-mc-pay12.cfg")],
        "rule": "non-trivial = a reward block while some gauge account holds tokens; distinct = distinct (pre-state, block, post-state) triples",
        "assumptions": SP_ASSUME,
    },
    "C13": {
        "family": "mint", "formulas": ["C13_Step", "C13_Params"], "nt": "C13",
        "bug_variants": [("clamp", ["PC13"], "Mint-mc-quick.cfg")],
        "rule": "non-trivial = a block boundary executed by the whole application (real BeginBlock/EndBlock/Commit); "
                "distinct = distinct (pre-state, post-state) pairs, i.e. distinct (parameters, previous emission, balances)",
        "assumptions": COMMON_ASSUME + ["whole-app ABCI blocks on a fresh chain per history; mint parameters installed through genesis and the params keeper",
                                         "stakers' sink = fee collector + distribution module account (distribution sweeps the fee collector every block)",
                                         "parameter sets: non-negative, three ratios summing to at most 100, valid stipend address"],
    },
    "C10": {
        "family": "ft", "formulas": ["C10_Step", "C10_Store"], "nt": "C10",
        "bug_variants": [],
        "rule": "non-trivial = a step that changes the tree, or a message about an existing entry signed by a non-owner, or a post by a "
                "non-editor of an existing parent; distinct = distinct (pre-state, message, post-state) triples",
        "assumptions": COMMON_ASSUME + ["digests are derived by the harness's own sha256 code and decoded to symbolic strings for known accounts, "
                                         "tracking numbers and paths; unknown digests stay raw strings",
                                         "messages refused by ValidateBasic never reach the state machine and are not part of a trace"],
    },
    "C20": {
        "family": "mp", "formulas": ["C20_Partition", "C20_ParentChild", "C20_PostPath"], "nt": "C20",
        "explanation": "the model part is a constant-level check (ASSUME SymbolicOK: parent/child, trailing-slash and injectivity laws of the "
                       "symbolic MerklePath over all strings up to the bound), so TLC reports a single state; the state/transition counts of "
                       "this property are not meaningful, the real-code coverage is in evaluations / distinct_nontrivial",
        "bug_variants": [],
        "rule": "every string over {a,b,/} up to the length bound, under 6 injective mappings of the letters to byte strings (ascii, multi-byte "
                "unicode, 70-byte pieces, blank/dot, case pairs, NUL/0xff bytes), plus root->child->grandchild posts on the real chain; "
                "non-trivial = a string containing a separator, or a post chain; distinct = distinct (string, mapping) pairs",
        "assumptions": ["real types.MerklePath / types.AddToMerkle and the real PostFile handler are evaluated; the symbolic hash of the TLA+ model is injective by construction",
                        "paths beyond the length bound and other byte strings are not covered",
                        "reading: the parent/child relation is required for parents that do not end in a separator and non-empty child segments"],
    },
    "C18": {
        "family": "notif",
        "formulas": ["C18_Step", "C18_BlockSilent", "C18_BlockRecorded", "C18_NoPhantom", "C18_NoLoss", "C18_KF_BlockEntry", "C18_KF_Overwrite"], "nt": "C18",
        "bug_variants": [("blockentry", ["C18_KF_BlockEntry"], "Notif-mc-quick.cfg"), ("overwrite", ["C18_KF_Overwrite"], "Notif-mc-quick.cfg")],
        "rule": "non-trivial = a create, delete or block-senders step; distinct = distinct (pre-state, message, post-state) triples",
        "assumptions": COMMON_ASSUME + ["the inbox is observed through the AllNotificationsByAddress query method (cross-checked against the keeper getter)",
                                         "name targets resolve through real RNS records installed with the keeper; block time advances in whole seconds",
                                         "two known findings (block entry listed in inbox; same-key create overwrites) are reported as KNOWN-FINDING, any other "
                                         "phantom or lost inbox entry is a violation"],
    },
    "C19": {
        "family": "gen", "formulas": ["C19|*"], "nt": "C19",
        "bug_variants": [("storage/FileProof", ["C19_RoundTrip"], "Genesis-mc.cfg"), ("jklmint/MintedBlock", ["C19_RoundTrip"], "Genesis-mc.cfg")],
        "rule": "one evaluation = one history that populates all six custom modules through real messages and whole-app blocks (storage plans, files, "
                "proofs, providers, collateral, attestation and report forms, gauges; rns names, listings, bids, primary and free names; filetree "
                "entries and public keys; oracle feeds; notifications and block lists; mint history), followed by export, Validate, boot of a "
                "fresh chain from the exported genesis, raw KV comparison of the six module stores per record kind, parameter comparison and "
                "re-export; non-trivial = some record kind is populated; distinct = distinct per-kind record counts / outcomes",
        "assumptions": ["the custom modules' ExportGenesis functions are called on the live context and the fresh chain is booted through InitChain with "
                        "the exported JSON substituted into the default genesis",
                        "record kinds are identified by store key prefix", "seven per-kind outcomes are known findings; any other lost/changed/extra "
                        "kind, failed Validate, parameter difference or re-export difference is a violation"],
    },
    "C05": {
        "family": "chain", "formulas": ["C05_NoPanic"], "nt": "C05",
        "bug_variants": [("sizes", ["C05_NoHalt"], "Chain-mc-quick.cfg")],
        "rule": "one history = a fresh chain, a scripted population of all custom modules, then signed transactions of randomly chosen custom "
                "message types whose every field is drawn from boundary values (int64 min/-1/0/1/2^62/max, odd strings, random and known "
                "merkle roots) and that pass ValidateBasic, interleaved with proofs and whole-app block boundaries; non-trivial = a block "
                "boundary (BeginBlock+EndBlock+Commit under recover); distinct = distinct app hashes reached",
        "assumptions": ["all delivery through signed DeliverTx with the real ante handler and ABCI BeginBlock/EndBlock/Commit",
                        "storage windows ProofWindow=3, CheckWindow=4, chunk size 2; block time step one day",
                        "parameter-induced panics are C13's quantifier, not C05's"],
    },
    "C06": {
        "family": "chain", "formulas": ["C06_Same"], "nt": "C06", "pair": True,
        "bug_variants": [],
        "rule": "the same seeded history (as for C05) is executed by two separate OS processes (GOMAXPROCS=1 and 16, independent map "
                "iteration seeds); every transaction's (code, codespace, gas, event digest) and every block's (panic flag, app hash, "
                "end-block event digest) are compared; non-trivial = every compared step; distinct = distinct observations",
        "assumptions": ["nondeterminism is sampled by double execution, not modelled: the TLA+ part contributes the 2-safety equality formula and its evaluation",
                        "same binary, same machine: architecture-dependent divergence is out of reach"],
    },
    "C11": {
        "families": ["auth", "own"], "formulas": ["C11_Signers", "C11_Routable", "C11_AuthRule", "C11_Own"], "nt": "C11",
        "bug_variants": [],
        "rule": "signer clause: every custom message type found in the application's interface registry (45 at the pinned commit), built with "
                "distinct accounts in every address-typed field, has GetSigners = [creator] and a handler, and through the real ante handler is "
                "accepted exactly when signed by the creator alone (signature sets: creator, another account, both, an account named in a "
                "field). Resource clause: random histories of owner-only messages (provider record, claimers, feeds, primary name, block list, "
                "file deletion, contract post through the wasm binding) sent by owners and by non-owners; non-trivial = every table row and "
                "delivery, every effective step and every non-owner attempt on an existing resource; distinct = distinct (pre, message, post)",
        "assumptions": COMMON_ASSUME + ["address-typed fields are recognised by field name", "the wasm clause calls wasmbinding.PerformPostFile directly; no contract is executed"],
    },
}

# C04 / C07 formulas are evaluated on the coarse (hour-tick) sp variants only: both of their variants are coarse
_SP_COARSE = [{"vh_cfg": {"h0": 5000002}, "sim_subst": {"H0": "5000002", "MAXH": "5000060"}}, {"vh_cfg": {}, "sim_subst": {}}]
for _pid in ("C04", "C07"):
    PROPS[_pid].setdefault("per_family", {})["sp"] = {"variants": _SP_COARSE}

# Whole-application token ledger (family "ledger", spec/Ledger.tla): second family of the properties with a token-flow clause.
# (formulas decided on ledger traces, non-triviality tag of LedgerTrace, design rules whose removal TLC must detect)
_LG_MC = {"quick": ["Ledger-mc-quick.cfg"], "thorough": ["Ledger-mc-quick.cfg", "Ledger-mc-2d.cfg", "Ledger-mc-thorough.cfg"]}
LEDGER = {
    "C03": (["LG_StorKeeps"], "LG_C03", []),
    "C04": (["LG_StorKeeps", "LG_FailFree", "LG_Conserve"], "LG_C04", []),
    "C09": (["LG_RnsBacked", "LG_Conserve"], "LG_C09", [("refund", ["LG_RnsBacked"], "Ledger-mc-quick.cfg"), ("passfee", ["LG_RnsBacked"], "Ledger-mc-quick.cfg")]),
    "C12": (["LG_GaugeHold"], "LG_C12", []),
    "C13": (["LG_Supply", "LG_MintOut", "LG_MintSplit"], "LG_C13", [("fullmint", ["PStep"], "Ledger-mc-quick.cfg")]),
    "C15": (["LG_CollBacked", "LG_CollExact"], "LG_C15", []),
    "C16": (["LG_FailFree"], "LG_C16", []),
}
# C07 at whole-application level (extreme sizes, all modules interleaved): plan usage never negative, within the space bought, equal to the footprint
PROPS["C07"]["families"] = [PROPS["C07"].pop("family"), "ledger"]
PROPS["C07"]["formulas"] = PROPS["C07"]["formulas"] + ["LG_Plans"]
PROPS["C07"].setdefault("per_family", {})["ledger"] = {"nt": "LG_C07", "mc_cfg": {"quick": ["Ledger-mc-quick.cfg"], "thorough": ["Ledger-mc-quick.cfg"]}, "bug_variants": []}
# C06: the source scan as second family (single execution, not a pair)
PROPS["C06"]["families"] = [PROPS["C06"].pop("family"), "src"]
PROPS["C06"]["formulas"] = PROPS["C06"]["formulas"] + ["C06_TimeSource"]
PROPS["C06"].setdefault("per_family", {})["src"] = {"nt": "C06src", "pair": False, "bug_variants": []}
PROPS["C06"]["technique"] = ("TLA+ spec (family chain, pair mode) + TLC trace validation of two independent real executions of the same history (2-safety "
                             "equality formula C06_Same); plus family src: Go AST scan of the module sources for wall-clock / process-global randomness "
                             "references, logged as a trace and validated by TLC (C06_TimeSource) - the assumption under which double execution is meaningful")
PROPS["C06"]["assumptions"] = PROPS["C06"]["assumptions"] + ["the source scan is syntactic: it sees direct references in the scanned directories (x/, wasmbinding/, types/, app/ without client, simulation, upgrades), not references hidden in dependencies"]
# C17 at whole-application level (creators in lower- and upper-case spellings, all modules interleaved)
PROPS["C17"]["families"] = [PROPS["C17"].pop("family"), "ledger"]
PROPS["C17"]["formulas"] = PROPS["C17"]["formulas"] + ["LG_Files"]
PROPS["C17"].setdefault("per_family", {})["ledger"] = {"nt": "LG_C17", "mc_cfg": {"quick": ["Ledger-mc-quick.cfg"], "thorough": ["Ledger-mc-quick.cfg"]}, "bug_variants": []}
# C11 (resource clause at whole-application level): auth records of accounts change only by their own signed transactions
PROPS["C11"]["families"] = PROPS["C11"]["families"] + ["ledger"]
PROPS["C11"]["formulas"] = PROPS["C11"]["formulas"] + ["LG_Auth"]
PROPS["C11"].setdefault("per_family", {})["ledger"] = {"nt": "LG_C11", "mc_cfg": {"quick": ["Ledger-mc-quick.cfg"], "thorough": ["Ledger-mc-quick.cfg"]}, "bug_variants": []}
for _pid, (_forms, _nt, _bugs) in LEDGER.items():
    _p = PROPS[_pid]
    _p["families"] = [_p.pop("family"), "ledger"]
    _p["formulas"] = _p["formulas"] + _forms
    _p.setdefault("per_family", {})["ledger"] = {"nt": _nt, "mc_cfg": _LG_MC, "bug_variants": _bugs}
    _p["rule"] += ("; ledger family (whole application through ABCI, all modules' messages interleaved): class balances, open bids, collateral "
                   "records and supply projected after every transaction and block; non-trivial = steps tagged " + _nt)


package fz

import (
	"fmt"
	"testing"

	"github.com/cosmos/cosmos-sdk/store/rootmulti"
	storetypes "github.com/cosmos/cosmos-sdk/store/types"
	sdk "github.com/cosmos/cosmos-sdk/types"
	"github.com/jackalLabs/canine-chain/v4/x/jklmint"
	"github.com/jackalLabs/canine-chain/v4/x/notifications"
	ntypes "github.com/jackalLabs/canine-chain/v4/x/notifications/types"
	"github.com/jackalLabs/canine-chain/v4/x/rns"
	rtypes "github.com/jackalLabs/canine-chain/v4/x/rns/types"
	"github.com/jackalLabs/canine-chain/v4/x/storage"
	stypes "github.com/jackalLabs/canine-chain/v4/x/storage/types"
)

func dump(h *H, name string) map[string]string {
	st := h.a.CommitMultiStore().(*rootmulti.Store).GetStoreByName(name).(storetypes.KVStore)
	it := st.Iterator(nil, nil)
	defer it.Close()
	m := map[string]string{}
	for ; it.Valid(); it.Next() {
		m[string(it.Key())] = string(it.Value())
	}
	return m
}

func kinds(m map[string]string) map[string]int {
	k := map[string]int{}
	for key := range m {
		i := 0
		for i < len(key) && key[i] != '/' { i++ }
		k[key[:i]]++
	}
	return k
}

func TestC19(t *testing.T) {
	h := newH(t, storageParams(5, 10))
	user, p := acc(1), acc(2)
	h.fund(user, 1e9); h.fund(p, 1e9)
	if err := buy(h, user, ""); err != nil { t.Fatal(err) }
	f := mkfile([]byte("abcdefghij"), 1024)
	h.msg(&stypes.MsgPostFile{Creator: user.String(), Merkle: f.root, FileSize: 10, MaxProofs: 3, Note: "{}"})
	item, hl := f.proof(0)
	h.msg(&stypes.MsgInitProvider{Creator: p.String(), Ip: "https://a.b", TotalSpace: 1000})
	h.msg(&stypes.MsgPostProof{Creator: p.String(), Item: item, HashList: hl, Merkle: f.root, Owner: user.String(), Start: h.h, ToProve: 0})
	h.msg(&rtypes.MsgRegisterName{Creator: user.String(), Name: "hello.jkl", Years: 1, Data: "{}"})
	h.msg(&rtypes.MsgBid{Creator: p.String(), Name: "hello.jkl", Bid: sdk.NewInt64Coin("ujkl", 5)})
	h.msg(&rtypes.MsgInit{Creator: p.String()})
	h.msg(&ntypes.MsgBlockSenders{Creator: user.String(), ToBlock: []string{p.String()}})
	h.msg(&ntypes.MsgCreateNotification{Creator: user.String(), To: p.String(), Contents: "{}"})
	h.next()
	sg := storage.ExportGenesis(h.ctx, h.a.StorageKeeper)
	rg := rns.ExportGenesis(h.ctx, h.a.RnsKeeper)
	ng := notifications.ExportGenesis(h.ctx, h.a.NotificationsKeeper)
	mg := jklmint.ExportGenesis(h.ctx, h.a.MintKeeper)
	fmt.Println("validate:", sg.Validate(), rg.Validate(), ng.Validate(), mg.Validate())
	h2 := newH(t, nil)
	storage.InitGenesis(h2.ctx, h2.a.StorageKeeper, *sg)
	rns.InitGenesis(h2.ctx, h2.a.RnsKeeper, *rg)
	notifications.InitGenesis(h2.ctx, h2.a.NotificationsKeeper, *ng)
	jklmint.InitGenesis(h2.ctx, h2.a.MintKeeper, *mg)
	h2.end()
	h.end()
	for _, n := range []string{"storage", "rns", "notification", "jklmint"} {
		a, b := dump(h, n), dump(h2, n)
		fmt.Println(n, "src kinds", kinds(a), "dst kinds", kinds(b))
		for k, v := range a {
			if b[k] != v { fmt.Printf("   lost/changed: %.60q\n", k) }
		}
		for k := range b {
			if _, ok := a[k]; !ok { fmt.Printf("   extra: %.60q\n", k) }
		}
	}
}

package fz

import (
	"fmt"
	"testing"
	"time"

	sdk "github.com/cosmos/cosmos-sdk/types"
	"github.com/jackalLabs/canine-chain/v4/x/storage"
	stypes "github.com/jackalLabs/canine-chain/v4/x/storage/types"
)

// tree-shaped replay: nested cache contexts, keeper-level begin block
func TestTree(t *testing.T) {
	h := newH(t, storageParams(5, 10))
	user := acc(1)
	h.fund(user, 1e9)
	if err := buy(h, user, ""); err != nil { t.Fatal(err) }
	f := mkfile([]byte("abcdefghij"), 1024)
	h.msg(&stypes.MsgPostFile{Creator: user.String(), Merkle: f.root, FileSize: 10, MaxProofs: 3, Note: "{}"})
	start := h.h
	item, hl := f.proof(0)
	base := h.ctx
	run := func(ctx sdk.Context, m sdk.Msg) {
		_, err := h.a.MsgServiceRouter().Handler(m)(ctx, m)
		if err != nil { t.Fatal(err) }
	}
	t0 := time.Now()
	n := 0
	for rep := 0; rep < 200; rep++ {
		// branch A: p1 proves, then 10 blocks
		ca, _ := base.CacheContext()
		run(ca, &stypes.MsgPostProof{Creator: acc(2).String(), Item: item, HashList: hl, Merkle: f.root, Owner: user.String(), Start: start, ToProve: 0})
		cur := ca
		for i := int64(1); i <= 10; i++ {
			c2, _ := cur.CacheContext()
			c2 = c2.WithBlockHeight(h.h + i).WithBlockTime(h.tm.Add(time.Duration(i) * 24 * time.Hour))
			storage.BeginBlocker(c2, h.a.StorageKeeper)
			cur = c2
			n++
		}
		if rep == 0 {
			fa, _ := h.a.StorageKeeper.GetFile(cur, f.root, user.String(), start)
			fb, _ := h.a.StorageKeeper.GetFile(base, f.root, user.String(), start)
			fmt.Println("branch A proofs", len(fa.Proofs), "height", cur.BlockHeight(), "bal p", h.a.BankKeeper.GetBalance(cur, acc(2), "ujkl"), "| base proofs", len(fb.Proofs), "base bal", h.a.BankKeeper.GetBalance(base, acc(2), "ujkl"))
		}
	}
	fmt.Println(n, "keeper-level blocks in", time.Since(t0))
}

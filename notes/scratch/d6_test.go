package fz

import (
	"fmt"
	"reflect"
	"sort"
	"strings"
	"testing"

	sdk "github.com/cosmos/cosmos-sdk/types"
)

func TestMsgTable(t *testing.T) {
	h := newH(t, nil)
	urls := h.a.InterfaceRegistry.ListImplementations("cosmos.base.v1beta1.Msg")
	sort.Strings(urls)
	n := 0
	for _, u := range urls {
		if !strings.HasPrefix(u, "/canine_chain.") { continue }
		n++
		pm, err := h.a.InterfaceRegistry.Resolve(u)
		if err != nil { t.Fatal(err) }
		msg := pm.(sdk.Msg)
		v := reflect.ValueOf(msg).Elem()
		var sf []string
		k := 0
		for i := 0; i < v.NumField(); i++ {
			f := v.Field(i)
			if f.Kind() == reflect.String && f.CanSet() {
				k++
				f.SetString(acc(50 + k).String())
				sf = append(sf, v.Type().Field(i).Name)
			}
		}
		var signers []string
		func() {
			defer func() { if r := recover(); r != nil { signers = []string{fmt.Sprint("PANIC ", r)} } }()
			for _, s := range msg.GetSigners() { signers = append(signers, s.String()) }
		}()
		creator := v.FieldByName("Creator").String()
		routable := h.a.MsgServiceRouter().Handler(msg) != nil
		okc := len(signers) == 1 && signers[0] == creator
		if n <= 3 || !okc || !routable { fmt.Println(u, sf, "signerIsCreator", okc, "routable", routable) }
	}
	fmt.Println("canine msgs:", n)
}

---- MODULE Win ----
EXTENDS Integers, FiniteSets
CONSTANTS MaxI, MaxC, NWin, VARIANT
VARIABLES S, I, C, h, lp, joined, listed, burned, marks
vars == <<S, I, C, h, lp, joined, listed, burned, marks>>
Rounded(height) == LET k == height - S IN k - (k % I) + S
ProvenLast(height, last) == IF VARIANT = "gt" THEN last > Rounded(height) - I ELSE last >= Rounded(height) - I
Young(height) == IF VARIANT = "young_lt" THEN S + I > height ELSE S + I >= height
WinOf(height) == (height - S) \div I
Init == /\ I \in 2..MaxI /\ C \in 2..MaxC /\ S \in 1..(MaxC*MaxI)
        /\ h = S /\ joined = FALSE /\ lp = -1 /\ listed = FALSE /\ burned = 0 /\ marks = {}
\* the honest prover posts a valid proof at the current height (tx phase of block h)
Prove == /\ (joined => listed)
         /\ lp' = h /\ joined' = TRUE /\ listed' = TRUE /\ marks' = marks \cup {WinOf(h)}
         /\ UNCHANGED <<S, I, C, h, burned>>
\* next block begins: reward check runs in BeginBlock of h+1 before any tx
Tick == /\ h + 1 < S + NWin * I
        /\ (joined /\ WinOf(h+1) # WinOf(h)) => WinOf(h) \in marks   \* obligation: proved in the window being left
        /\ h' = h + 1
        /\ IF listed /\ (h+1) % C = 0 /\ ~Young(h+1) /\ ~ProvenLast(h+1, lp)
             THEN listed' = FALSE /\ burned' = burned + 1
             ELSE UNCHANGED <<listed, burned>>
        /\ UNCHANGED <<S, I, C, lp, joined, marks>>
Next == Prove \/ Tick
Spec == Init /\ [][Next]_vars
HonestKept == joined => (listed /\ burned = 0)
====

CONSTANTS MaxI = 5 MaxC = 6 NWin = 4 VARIANT = "code"
SPECIFICATION Spec
INVARIANT HonestKept
CHECK_DEADLOCK FALSE

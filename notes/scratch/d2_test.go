package fz

import (
	"fmt"
	"testing"

	sdk "github.com/cosmos/cosmos-sdk/types"
	authtypes "github.com/cosmos/cosmos-sdk/x/auth/types"
	"github.com/jackalLabs/canine-chain/v4/app"
	jtypes "github.com/jackalLabs/canine-chain/v4/types"
	mtypes "github.com/jackalLabs/canine-chain/v4/x/jklmint/types"
	ntypes "github.com/jackalLabs/canine-chain/v4/x/notifications/types"
	rtypes "github.com/jackalLabs/canine-chain/v4/x/rns/types"
	stypes "github.com/jackalLabs/canine-chain/v4/x/storage/types"
)

func TestC04(t *testing.T) {
	h := newH(t, storageParams(5, 10))
	user, ref := acc(1), acc(2)
	h.fund(user, 1e9)
	pol, _ := jtypes.GetPOLAccount()
	mod := authtypes.NewModuleAddress("storage")
	fc := authtypes.NewModuleAddress("fee_collector")
	u0, r0, p0, m0, f0 := h.bal(user), h.bal(ref), h.bal(pol), h.bal(mod), h.bal(fc)
	if err := buy(h, user, ref.String()); err != nil { t.Fatal(err) }
	g := h.a.StorageKeeper.GetAllPaymentGauges(h.ctx)
	ga, _ := stypes.GetGaugeAccount(g[0])
	paid := u0 - h.bal(user)
	fmt.Println("paid", paid, "ref got", h.bal(ref)-r0, "(25% =", paid*25/100, ") pol got", h.bal(pol)-p0, "(30% =", paid*30/100, ") module", h.bal(mod)-m0, "feecol", h.bal(fc)-f0, "gauge", h.bal(ga), g[0].Coins)
}

func TestC07(t *testing.T) {
	h := newH(t, storageParams(5, 10))
	user := acc(1)
	h.fund(user, 1e9)
	if err := buy(h, user, ""); err != nil { t.Fatal(err) }
	f := mkfile([]byte("abcdefghij"), 1024)
	_, err := h.msg(&stypes.MsgPostFile{Creator: user.String(), Merkle: f.root, FileSize: 1000, MaxProofs: 3, Note: "{}"})
	if err != nil { t.Fatal(err) }
	pi, _ := h.a.StorageKeeper.GetStoragePaymentInfo(h.ctx, user.String())
	fmt.Println("used after post", pi.SpaceUsed)
	_, err = h.msg(&stypes.MsgPostFile{Creator: user.String(), Merkle: f.root, FileSize: 1000, MaxProofs: 3, Note: "{}"})
	pi, _ = h.a.StorageKeeper.GetStoragePaymentInfo(h.ctx, user.String())
	fmt.Println("used after re-post same key", pi.SpaceUsed, err, "files", len(h.a.StorageKeeper.GetAllFileByMerkle(h.ctx)))
	_, err = h.msg(&stypes.MsgDeleteFile{Creator: user.String(), Merkle: f.root, Start: h.h})
	pi, _ = h.a.StorageKeeper.GetStoragePaymentInfo(h.ctx, user.String())
	fmt.Println("used after delete", pi.SpaceUsed, err, "files", len(h.a.StorageKeeper.GetAllFileByMerkle(h.ctx)))
	_, err = h.msg(&stypes.MsgPostFile{Creator: user.String(), Merkle: f.root, FileSize: -5000, MaxProofs: 1, Note: "{}"})
	pi, _ = h.a.StorageKeeper.GetStoragePaymentInfo(h.ctx, user.String())
	fmt.Println("used after negative post", pi.SpaceUsed, err)
}

func TestC08(t *testing.T) {
	h := newH(t, nil)
	a, b, c := acc(1), acc(2), acc(3)
	for _, x := range []sdk.AccAddress{a, b, c} { h.fund(x, 1e9) }
	_, err := h.msg(&rtypes.MsgRegisterName{Creator: a.String(), Name: "hello.jkl", Years: 1, Data: "{}"})
	if err != nil { t.Fatal(err) }
	_, err = h.msg(&rtypes.MsgList{Creator: a.String(), Name: "hello.jkl", Price: sdk.NewInt64Coin("ujkl", 777)})
	if err != nil { t.Fatal(err) }
	_, err = h.msg(&rtypes.MsgTransfer{Creator: a.String(), Name: "hello.jkl", Receiver: b.String()})
	if err != nil { t.Fatal(err) }
	a0, b0 := h.bal(a), h.bal(b)
	_, err = h.msg(&rtypes.MsgBuy{Creator: c.String(), Name: "hello.jkl"})
	n, _ := h.a.RnsKeeper.GetNames(h.ctx, "hello", "jkl")
	fmt.Println("buy err", err, "owner now c?", n.Value == c.String(), "a got", h.bal(a)-a0, "b got", h.bal(b)-b0)
}

func TestC09(t *testing.T) {
	h := newH(t, nil)
	a, b := acc(1), acc(2)
	for _, x := range []sdk.AccAddress{a, b} { h.fund(x, 1e9) }
	mod := authtypes.NewModuleAddress("rns")
	h.msg(&rtypes.MsgBid{Creator: a.String(), Name: "hello.jkl", Bid: sdk.NewInt64Coin("ujkl", 500)})
	h.msg(&rtypes.MsgBid{Creator: a.String(), Name: "hello.jkl", Bid: sdk.NewInt64Coin("ujkl", 300)})
	fmt.Println("module holds", h.bal(mod), "bids", h.a.RnsKeeper.GetAllBids(h.ctx))
	_, err := h.msg(&rtypes.MsgCancelBid{Creator: a.String(), Name: "hello.jkl"})
	fmt.Println("after cancel module holds", h.bal(mod), err, "a lost", int64(1e9)-h.bal(a))
}

func TestC12(t *testing.T) {
	h := newH(t, storageParams(5, 10))
	h.step = 24 * 3600 * 1e9
	a, b := acc(1), acc(2)
	h.fund(a, 1e9); h.fund(b, 1e9)
	if err := buy(h, a, ""); err != nil { t.Fatal(err) }
	if err := buy(h, b, ""); err != nil { t.Fatal(err) }
	g := h.a.StorageKeeper.GetAllPaymentGauges(h.ctx)
	ga, _ := stypes.GetGaugeAccount(g[0])
	fmt.Println("gauges", len(g), g[0].Coins, "gauge acct holds", h.bal(ga))
	mod := authtypes.NewModuleAddress("storage")
	m0 := h.bal(mod)
	h.to(10)
	fmt.Println("after 8 days of 30: gauge acct holds", h.bal(ga), "module got", h.bal(mod)-m0, "linear would be", 2*13999*8/30)
}

func TestC13(t *testing.T) {
	h := newH(t, func(gs app.GenesisState, a *app.JackalApp) {
		var mg mtypes.GenesisState
		a.AppCodec().MustUnmarshalJSON(gs["jklmint"], &mg)
		mg.Params.TokensPerBlock = 5
		mg.Params.MintDecrease = 6_000_000
		gs["jklmint"] = a.AppCodec().MustMarshalJSON(&mg)
	})
	for i := 0; i < 10; i++ {
		mb, _ := h.a.MintKeeper.GetMintedBlock(h.ctx, h.h)
		p := h.next()
		fmt.Println("h", h.h-1, "minted", mb.Minted, "panic next:", p)
		if p != nil { break }
	}
}

func TestC16(t *testing.T) {
	h := newH(t, nil)
	a, b := acc(1), acc(2)
	h.fund(a, 1e9); h.fund(b, 1e9)
	// seed an expired name owned by a
	h.a.RnsKeeper.SetNames(h.ctx, rtypes.Names{Name: "old", Tld: "jkl", Value: a.String(), Expires: 1, Data: "{}"})
	h.to(5)
	_, err := h.msg(&rtypes.MsgRegisterName{Creator: b.String(), Name: "old.jkl", Years: 1, Data: "{}"})
	n, _ := h.a.RnsKeeper.GetNames(h.ctx, "old", "jkl")
	fmt.Println("other re-register:", err, "owner b?", n.Value == b.String(), "expires", n.Expires, "expected >=", h.h+5484530)
	h.a.RnsKeeper.SetNames(h.ctx, rtypes.Names{Name: "old2", Tld: "jkl", Value: a.String(), Expires: 1, Data: "{}"})
	_, err = h.msg(&rtypes.MsgRegisterName{Creator: a.String(), Name: "old2.jkl", Years: 1, Data: "{}"})
	n, _ = h.a.RnsKeeper.GetNames(h.ctx, "old2", "jkl")
	fmt.Println("same-owner re-register:", err, "expires", n.Expires, "expected >=", h.h+5484530)
	// live at height == expires: other can register?
	h.a.RnsKeeper.SetNames(h.ctx, rtypes.Names{Name: "edge", Tld: "jkl", Value: a.String(), Expires: h.h, Data: "{}"})
	_, e1 := h.msg(&rtypes.MsgUpdate{Creator: a.String(), Name: "edge.jkl", Data: "{\"x\":1}"})
	_, e2 := h.msg(&rtypes.MsgRegisterName{Creator: b.String(), Name: "edge.jkl", Years: 1, Data: "{}"})
	fmt.Println("at height==expires: owner update err:", e1, " other register err:", e2)
}

func TestC18(t *testing.T) {
	h := newH(t, nil)
	a, b := acc(1), acc(2)
	_, err := h.msg(&ntypes.MsgBlockSenders{Creator: a.String(), ToBlock: []string{b.String()}})
	fmt.Println(err)
	l := h.a.NotificationsKeeper.GetAllNotificationsByAddress(h.ctx, a.String())
	fmt.Println("inbox of a after blocking only:", len(l), l)
}

package fz

import (
	"fmt"
	"math/rand"
	"testing"
	"time"

	"github.com/cosmos/cosmos-sdk/crypto/keys/secp256k1"
	"github.com/cosmos/cosmos-sdk/simapp/helpers"
	sdk "github.com/cosmos/cosmos-sdk/types"
	abci "github.com/tendermint/tendermint/abci/types"
	"github.com/jackalLabs/canine-chain/v4/app"
	rtypes "github.com/jackalLabs/canine-chain/v4/x/rns/types"
)

func TestTx(t *testing.T) {
	h := newH(t, nil)
	priv := secp256k1.GenPrivKeyFromSecret([]byte("k1"))
	priv2 := secp256k1.GenPrivKeyFromSecret([]byte("k2"))
	addr := sdk.AccAddress(priv.PubKey().Address())
	h.fund(addr, 1e9)
	h.next()
	txc := app.MakeEncodingConfig().TxConfig
	a := h.a.AccountKeeper.GetAccount(h.ctx, addr)
	fmt.Println("acc", a.GetAccountNumber(), a.GetSequence())
	t0 := time.Now()
	for i, pk := range []*secp256k1.PrivKey{priv2, priv} {
		msg := &rtypes.MsgRegisterName{Creator: addr.String(), Name: fmt.Sprintf("hello%d.jkl", i), Years: 1, Data: "{}"}
		tx, err := helpers.GenTx(txc, []sdk.Msg{msg}, sdk.NewCoins(), 2000000, "", []uint64{a.GetAccountNumber()}, []uint64{a.GetSequence()}, pk)
		if err != nil { t.Fatal(err) }
		bz, _ := txc.TxEncoder()(tx)
		r := h.a.DeliverTx(abci.RequestDeliverTx{Tx: bz})
		fmt.Println(i, "code", r.Code, r.Codespace, "gas", r.GasUsed, "events", len(r.Events), r.Log[:min(len(r.Log), 80)])
	}
	fmt.Println(time.Since(t0))
	_ = rand.Int
}

package fz

import (
	"fmt"
	"testing"

	sdk "github.com/cosmos/cosmos-sdk/types"
	"github.com/jackalLabs/canine-chain/v4/app"
	stypes "github.com/jackalLabs/canine-chain/v4/x/storage/types"
)

func storageParams(pw, cw int64) func(gs app.GenesisState, a *app.JackalApp) {
	return func(gs app.GenesisState, a *app.JackalApp) {
		var sg stypes.GenesisState
		a.AppCodec().MustUnmarshalJSON(gs["storage"], &sg)
		sg.Params.ProofWindow = pw
		sg.Params.CheckWindow = cw
		sg.Params.CollateralPrice = 1000
		gs["storage"] = a.AppCodec().MustMarshalJSON(&sg)
	}
}

func buy(h *H, who sdk.AccAddress, ref string) error {
	_, err := h.msg(&stypes.MsgBuyStorage{Creator: who.String(), ForAddress: who.String(), DurationDays: 30, Bytes: 3_000_000_000, PaymentDenom: "ujkl", Referral: ref})
	return err
}

func TestC01(t *testing.T) {
	h := newH(t, storageParams(5, 10))
	user, honest, evil := acc(1), acc(2), acc(3)
	h.step = 24 * 3600 * 1e9
	h.fund(user, 1e9)
	if err := buy(h, user, ""); err != nil { t.Fatal(err) }
	f := mkfile([]byte("abcdefghij"), 1024)
	_, err := h.msg(&stypes.MsgPostFile{Creator: user.String(), Merkle: f.root, FileSize: 10, MaxProofs: 3, Note: "{}"})
	if err != nil { t.Fatal(err) }
	start := h.h
	item, hl := f.proof(0)
	r, err := h.msg(&stypes.MsgPostProof{Creator: honest.String(), Item: item, HashList: hl, Merkle: f.root, Owner: user.String(), Start: start, ToProve: 0})
	fmt.Println("honest:", string(r.Data), err)
	r, err = h.msg(&stypes.MsgPostProof{Creator: evil.String(), Item: []byte("junk"), HashList: []byte("{}"), Merkle: f.root, Owner: user.String(), Start: start, ToProve: 0})
	fmt.Println("evil:", string(r.Data), err)
	file, _ := h.a.StorageKeeper.GetFile(h.ctx, f.root, user.String(), start)
	fmt.Println("proofs:", file.Proofs)
	fmt.Println("gauges:", h.a.StorageKeeper.GetAllPaymentGauges(h.ctx))
	b0 := h.bal(evil)
	h.to(10)
	fmt.Println("h", h.h, "evil paid", h.bal(evil)-b0, "honest", h.bal(honest))
	file, _ = h.a.StorageKeeper.GetFile(h.ctx, f.root, user.String(), start)
	fmt.Println("proofs after:", file.Proofs)
}

func TestC03(t *testing.T) {
	h := newH(t, storageParams(5, 20))
	user := acc(1)
	h.step = 24 * 3600 * 1e9
	h.fund(user, 1e9)
	if err := buy(h, user, ""); err != nil { t.Fatal(err) }
	f := mkfile([]byte("abcdefghij"), 1024)
	_, err := h.msg(&stypes.MsgPostFile{Creator: user.String(), Merkle: f.root, FileSize: 10, MaxProofs: 3, Note: "{}"})
	if err != nil { t.Fatal(err) }
	start := h.h
	item, hl := f.proof(0)
	pr := []sdk.AccAddress{acc(10), acc(11), acc(12)}
	for _, p := range pr {
		h.fund(p, 5000)
		h.msg(&stypes.MsgInitProvider{Creator: p.String(), Ip: "https://a.b", TotalSpace: 1000})
		r, err := h.msg(&stypes.MsgPostProof{Creator: p.String(), Item: item, HashList: hl, Merkle: f.root, Owner: user.String(), Start: start, ToProve: 0})
		fmt.Println(string(r.Data), err)
	}
	// move to height 14..; B and C re-prove at height 16; A does not
	h.to(16)
	for _, p := range pr[1:] {
		r, err := h.msg(&stypes.MsgPostProof{Creator: p.String(), Item: item, HashList: hl, Merkle: f.root, Owner: user.String(), Start: start, ToProve: 0})
		fmt.Println(string(r.Data), err)
	}
	var b0 [3]int64
	for i, p := range pr { b0[i] = h.bal(p) }
	h.to(20)
	file, _ := h.a.StorageKeeper.GetFile(h.ctx, f.root, user.String(), start)
	fmt.Println("proofs after:", len(file.Proofs), file.Proofs)
	for i, p := range pr {
		pv, _ := h.a.StorageKeeper.GetProviders(h.ctx, p.String())
		fmt.Println(i, "paid", h.bal(p)-b0[i], "burned", pv.BurnedContracts)
	}
}

func TestC05(t *testing.T) {
	h := newH(t, storageParams(5, 10))
	user := acc(1)
	h.fund(user, 1e9)
	if err := buy(h, user, ""); err != nil { t.Fatal(err) }
	f := mkfile([]byte("abcdefghij"), 1024)
	_, err := h.msg(&stypes.MsgPostFile{Creator: user.String(), Merkle: f.root, FileSize: 0, MaxProofs: 1, Note: "{}"})
	if err != nil { t.Fatal(err) }
	item, hl := f.proof(0)
	r, err := h.msg(&stypes.MsgPostProof{Creator: acc(2).String(), Item: item, HashList: hl, Merkle: f.root, Owner: user.String(), Start: h.h, ToProve: 0})
	fmt.Println(string(r.Data), err)
	p := h.to(10)
	fmt.Println("panic at", h.h, ":", p)
}

package fz

import (
	"bytes"
	"crypto/sha256"
	"encoding/json"
	"fmt"
	"testing"
	"time"

	"github.com/CosmWasm/wasmd/x/wasm"
	wasmtypes "github.com/CosmWasm/wasmd/x/wasm/types"
	sdk "github.com/cosmos/cosmos-sdk/types"
	abci "github.com/tendermint/tendermint/abci/types"
	"github.com/tendermint/tendermint/libs/log"
	tmproto "github.com/tendermint/tendermint/proto/tendermint/types"
	dbm "github.com/tendermint/tm-db"
	"github.com/wealdtech/go-merkletree/v2"
	"github.com/wealdtech/go-merkletree/v2/sha3"

	"github.com/jackalLabs/canine-chain/v4/app"
	stypes "github.com/jackalLabs/canine-chain/v4/x/storage/types"
	sutils "github.com/jackalLabs/canine-chain/v4/x/storage/utils"
)

type H struct {
	t   *testing.T
	a   *app.JackalApp
	h   int64
	tm  time.Time
	step time.Duration
	ctx sdk.Context
}

func cfgOnce() {
	cfg := sdk.GetConfig()
	cfg.SetBech32PrefixForAccount(app.Bech32PrefixAccAddr, app.Bech32PrefixAccPub)
	cfg.SetBech32PrefixForValidator(app.Bech32PrefixValAddr, app.Bech32PrefixValPub)
	cfg.SetBech32PrefixForConsensusNode(app.Bech32PrefixConsAddr, app.Bech32PrefixConsPub)
	cfg.SetAddressVerifier(wasmtypes.VerifyAddressLen())
}

func newH(t *testing.T, mut func(gs app.GenesisState, a *app.JackalApp)) *H {
	cfgOnce()
	db := dbm.NewMemDB()
	a := app.NewJackalApp(log.NewNopLogger(), db, nil, true, map[int64]bool{}, t.TempDir(), 0, app.MakeEncodingConfig(), wasm.EnableAllProposals, app.EmptyBaseAppOptions{}, nil)
	gs := app.NewDefaultGenesisState()
	if mut != nil {
		mut(gs, a)
	}
	sb, _ := json.Marshal(gs)
	a.InitChain(abci.RequestInitChain{ConsensusParams: app.DefaultConsensusParams, AppStateBytes: sb})
	a.Commit()
	h := &H{t: t, a: a, h: 1, tm: time.Unix(1700000000, 0).UTC()}
	h.begin()
	return h
}

func (h *H) begin() (panicked interface{}) {
	h.h++
	if h.step == 0 { h.step = 6 * time.Second }
	h.tm = h.tm.Add(h.step)
	hdr := tmproto.Header{Height: h.h, Time: h.tm}
	func() {
		defer func() { panicked = recover() }()
		h.a.BeginBlock(abci.RequestBeginBlock{Header: hdr})
	}()
	if panicked == nil {
		h.ctx = h.a.BaseApp.NewContext(false, hdr)
	}
	return
}
func (h *H) end() { h.a.EndBlock(abci.RequestEndBlock{Height: h.h}); h.a.Commit() }
func (h *H) next() interface{} { h.end(); return h.begin() }
func (h *H) to(height int64) interface{} {
	for h.h < height {
		if p := h.next(); p != nil {
			return p
		}
	}
	return nil
}
func (h *H) msg(m sdk.Msg) (res *sdk.Result, err error) {
	if e := m.ValidateBasic(); e != nil {
		return nil, e
	}
	cctx, write := h.ctx.CacheContext()
	defer func() {
		if r := recover(); r != nil {
			err = fmt.Errorf("panic: %v", r)
		}
	}()
	res, err = h.a.MsgServiceRouter().Handler(m)(cctx, m)
	if err == nil {
		write()
	}
	return
}
func (h *H) fund(addr sdk.AccAddress, amt int64) {
	cs := sdk.NewCoins(sdk.NewInt64Coin("ujkl", amt))
	if err := h.a.BankKeeper.MintCoins(h.ctx, "jklmint", cs); err != nil {
		h.t.Fatal(err)
	}
	if err := h.a.BankKeeper.SendCoinsFromModuleToAccount(h.ctx, "jklmint", addr, cs); err != nil {
		h.t.Fatal(err)
	}
}
func (h *H) bal(addr sdk.AccAddress) int64 { return h.a.BankKeeper.GetBalance(h.ctx, addr, "ujkl").Amount.Int64() }
func acc(i int) sdk.AccAddress             { return sdk.AccAddress([]byte(fmt.Sprintf("acct%02d______________", i))) }

type tfile struct {
	data   []byte
	root   []byte
	tree   *merkletree.MerkleTree
	chunks [][]byte
}

func mkfile(data []byte, chunk int64) tfile {
	root, exp, chunks, _, err := sutils.BuildTree(bytes.NewReader(data), chunk)
	if err != nil {
		panic(err)
	}
	var tr merkletree.MerkleTree
	if err := json.Unmarshal(exp, &tr); err != nil {
		panic(err)
	}
	return tfile{data, root, &tr, chunks}
}
func (f tfile) proof(idx int64) (item []byte, hashList []byte) {
	item = f.chunks[idx]
	h := sha256.New()
	h.Write([]byte(fmt.Sprintf("%d%x", idx, item)))
	p, err := f.tree.GenerateProof(h.Sum(nil), 0)
	if err != nil {
		panic(err)
	}
	hashList, _ = json.Marshal(*p)
	return
}
var _ = sha3.New512
var _ = stypes.ModuleName

CONSTANTS Provers = {"p1","p2","p3"} Merkles = {"m1"} Sizes = {2} Reps = {3} I = 2 C = 3 MaxH = 9 R = 12 FIXED = FALSE
SPECIFICATION Spec
VIEW View
PROPERTY C03
CHECK_DEADLOCK FALSE

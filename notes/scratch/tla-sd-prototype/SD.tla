---- MODULE SD ----
\* prototype of the StorageDeals family: post file, post proof, reward block (fixed and pinned semantics)
EXTENDS Integers, Sequences, SequencesExt, FiniteSets, FiniteSetsExt, TLC
CONSTANTS Provers, Merkles, Sizes, Reps, I, C, MaxH, R, FIXED
VARIABLES files, pr, burned, bal, height, earned, ever, last
vars == <<files, pr, burned, bal, height, earned, ever>>
NoFile == [start |-> -1]
NoProof == [last |-> -1]
Exists(m) == files[m].start >= 0
Young(f, h) == f.start + I >= h
Rounded(f, h) == LET k == h - f.start IN k - (k % I) + f.start
ProvenLast(f, h, lp) == lp >= Rounded(f, h) - I

Listed(m) == IF Exists(m) THEN ToSet(files[m].proofs) ELSE {}
Init == /\ files = [m \in Merkles |-> NoFile]
        /\ pr = [x \in Provers \X Merkles |-> NoProof]
        /\ burned = [p \in Provers |-> 0] /\ bal = [p \in Provers |-> 0]
        /\ height = 1 /\ earned = {} /\ ever = {} /\ last = [a |-> "init"]
Fail(lbl) == UNCHANGED vars /\ last' = [lbl EXCEPT !.ok = FALSE]
PostFile(m, sz, mp) ==
  LET lbl == [a |-> "postfile", m |-> m, sz |-> sz, mp |-> mp, ok |-> TRUE] IN
  IF Exists(m) THEN Fail(lbl)
  ELSE /\ files' = [files EXCEPT ![m] = [start |-> height, size |-> sz, maxp |-> mp, proofs |-> <<>>]]
       /\ UNCHANGED <<pr, burned, bal, height, earned, ever>> /\ last' = lbl
PostProof(p, m, valid) ==
  LET lbl == [a |-> "postproof", p |-> p, m |-> m, valid |-> valid, ok |-> TRUE]
      f == files[m]
      member == p \in Listed(m)
      full == Len(f.proofs) >= f.maxp
      accept == /\ files' = IF member THEN files ELSE [files EXCEPT ![m].proofs = Append(@, p)]
                /\ pr' = [pr EXCEPT ![<<p, m>>] = [last |-> height]]
                /\ earned' = earned \cup {<<p, m>>} /\ ever' = ever \cup {<<p, m>>}
                /\ UNCHANGED <<burned, bal, height>> /\ last' = lbl
      pinnedReject == \* pinned tree: a new prover is registered before verification and stays
                /\ files' = [files EXCEPT ![m].proofs = Append(@, p)]
                /\ pr' = [pr EXCEPT ![<<p, m>>] = [last |-> height]]
                /\ UNCHANGED <<burned, bal, height, earned, ever>> /\ last' = [lbl EXCEPT !.ok = FALSE]
  IN IF ~Exists(m) THEN Fail(lbl)
     ELSE IF member /\ pr[<<p, m>>] = NoProof THEN Fail(lbl)
     ELSE IF ~member /\ full THEN Fail(lbl)
     ELSE IF valid THEN accept
     ELSE IF ~member /\ ~FIXED THEN pinnedReject
     ELSE Fail(lbl)
\* ---------- reward block ----------
Met(m, p, h) == LET f == files[m] IN Young(f, h) \/ (pr[<<p, m>>] # NoProof /\ ProvenLast(f, h, pr[<<p, m>>].last))
\* fixed semantics: walk a snapshot
KeepF(m, h) == SelectSeq(files[m].proofs, LAMBDA p : Met(m, p, h))
DropF(m, h) == {p \in Listed(m) : ~Met(m, p, h)}
CountedF(m, h) == [p \in Provers |-> IF p \in Listed(m) /\ Met(m, p, h) THEN 1 ELSE 0]
\* pinned semantics: range over the array that RemoveProverWithKey shifts in place
RECURSIVE Walk(_, _, _, _, _, _, _)
Walk(m, h, i, n0, arr, len, acc) ==   \* acc = [cnt |-> [Provers -> Nat], drop |-> SUBSET Provers]
  IF i > n0 THEN [arr |-> SubSeq(arr, 1, len), cnt |-> acc.cnt, drop |-> acc.drop]
  ELSE LET key == arr[i]
           live == key \notin acc.drop
           found == live /\ pr[<<key, m>>] # NoProof
           young == Young(files[m], h)
           proven == found /\ ProvenLast(files[m], h, pr[<<key, m>>].last)
           pos == {j \in 1..len : arr[j] = key}
           shifted == IF pos = {} THEN arr ELSE LET j == CHOOSE j \in pos : \A k \in pos : j <= k IN
                        [k \in 1..n0 |-> IF k >= j /\ k < len THEN arr[k+1] ELSE arr[k]]
           len2 == IF pos = {} THEN len ELSE len - 1
       IN IF ~young /\ ~found THEN Walk(m, h, i+1, n0, shifted, len2, acc)
          ELSE IF ~proven /\ ~young THEN Walk(m, h, i+1, n0, shifted, len2, [acc EXCEPT !.drop = @ \cup {key}])
          ELSE Walk(m, h, i+1, n0, arr, len, [acc EXCEPT !.cnt[key] = @ + 1])
WalkP(m, h) == LET n0 == Len(files[m].proofs) IN
               Walk(m, h, 1, n0, files[m].proofs, n0, [cnt |-> [p \in Provers |-> 0], drop |-> {}])
Keep(m, h) == IF FIXED THEN KeepF(m, h) ELSE WalkP(m, h).arr
Drop(m, h) == IF FIXED THEN DropF(m, h) ELSE WalkP(m, h).drop
Counted(m, h) == IF FIXED THEN CountedF(m, h) ELSE WalkP(m, h).cnt
Live == {m \in Merkles : Exists(m)}
SumOver(S, F(_)) == FoldSet(LAMBDA x, acc : acc + F(x), 0, S)
Total == LET w(m) == files[m].size * Len(files[m].proofs) IN SumOver(Live, w)
Credit(p, h) == LET w(m) == files[m].size * Counted(m, h)[p] IN SumOver(Live, w)
Reward(h) ==
  LET gone == {m \in Live : Len(files[m].proofs) = 0 /\ ~Young(files[m], h)}
      T == Total
  IN /\ files' = [m \in Merkles |-> IF m \in gone THEN NoFile
                                     ELSE IF m \in Live THEN [files[m] EXCEPT !.proofs = Keep(m, h)] ELSE files[m]]
     /\ pr' = [x \in Provers \X Merkles |-> IF x[2] \in Live /\ x[1] \in Drop(x[2], h) THEN NoProof ELSE pr[x]]
     /\ burned' = [p \in Provers |-> burned[p] + Cardinality({m \in Live : p \in Drop(m, h) /\ pr[<<p, m>>] # NoProof})]
     /\ bal' = [p \in Provers |-> bal[p] + (IF T > 0 THEN (R * Credit(p, h)) \div T ELSE 0)]
     /\ earned' = {x \in earned : ~(x[2] \in Live /\ x[1] \in Drop(x[2], h))}
     /\ UNCHANGED ever
NextBlock == /\ height < MaxH /\ height' = height + 1
             /\ IF (height + 1) % C = 0 THEN Reward(height + 1) ELSE UNCHANGED <<files, pr, burned, bal, earned, ever>>
             /\ last' = [a |-> "nextblock", reward |-> ((height + 1) % C = 0), ok |-> TRUE]
Next == \/ \E m \in Merkles, sz \in Sizes, mp \in Reps : PostFile(m, sz, mp)
        \/ \E p \in Provers, m \in Merkles, v \in BOOLEAN : PostProof(p, m, v)
        \/ NextBlock
Spec == Init /\ [][Next]_<<vars, last>>
View == vars
\* ---------- properties ----------
C01_Listed == \A m \in Merkles : \A p \in Listed(m) : <<p, m>> \in earned
C01_Paid == [][\A p \in Provers : bal'[p] > bal[p] => \E m \in Merkles : <<p, m>> \in ever]_<<vars, last>>
C17_Lists == \A m \in Live : /\ Len(files[m].proofs) <= files[m].maxp
                             /\ Cardinality(Listed(m)) = Len(files[m].proofs)
                             /\ \A p \in Listed(m) : pr[<<p, m>>] # NoProof
C03Step == (last'.a = "nextblock" /\ last'.reward) =>
   LET h == height + 1 IN
   /\ \A m \in Live : files'[m] # NoFile => files'[m].proofs = SelectSeq(files[m].proofs, LAMBDA p : Met(m, p, h))
   /\ \A p \in Provers : burned'[p] = burned[p] + Cardinality({m \in Live : p \in Listed(m) /\ ~Met(m, p, h)})
   /\ LET cr(p) == LET w(m) == IF p \in Listed(m) /\ Met(m, p, h) THEN files[m].size ELSE 0 IN SumOver(Live, w)
          paid(p) == bal'[p] - bal[p]
          Tl == Total
      IN /\ \A p \in Provers : cr(p) = 0 => paid(p) = 0
         /\ LET q(p) == paid(p) IN SumOver(Provers, q) <= R
         /\ \A p \in Provers : cr(p) > 0 => paid(p) >= (R * cr(p)) \div Tl - 1
         /\ \A p, q \in Provers : (cr(p) > 0 /\ cr(p) = cr(q)) => paid(p) - paid(q) \in -1..1
C03 == [][C03Step]_<<vars, last>>
====

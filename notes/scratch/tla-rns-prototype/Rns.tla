---- MODULE Rns ----
EXTENDS Integers, Sequences, FiniteSets, TLC
CONSTANTS Acc, Names, YEAR, COST, MAXH, FIXED, Prices
VARIABLES names, sale, bids, bal, height, last
vars == <<names, sale, bids, bal, height>>
NoName == [owner |-> "none", exp |-> -1]
Exists(n) == names[n].owner # "none"
Live(n) == Exists(n) /\ height <= names[n].exp
MOD == "rns"  POL == "pol"
Send(b, from, to, amt) == [b EXCEPT ![from] = @ - amt, ![to] = @ + amt]
Init == /\ names = [n \in Names |-> NoName]
        /\ sale = [n \in Names |-> [lister |-> "none", price |-> 0]]
        /\ bids = [x \in Acc \X Names |-> 0]
        /\ bal = [a \in Acc \cup {MOD, POL} |-> IF a \in Acc THEN 6 ELSE 0]
        /\ height = 1
        /\ last = [a |-> "init"]
Fail(lbl) == UNCHANGED vars /\ last' = [lbl EXCEPT !.ok = FALSE]
Register(s, n, y) ==
  LET lbl == [a |-> "register", s |-> s, n |-> n, y |-> y, ok |-> TRUE]
      cost == COST * y
      lapsed == Exists(n) /\ (IF FIXED THEN height > names[n].exp ELSE height >= names[n].exp)
      mine == Exists(n) /\ names[n].owner = s
      newexp == IF ~Exists(n) THEN height + y * YEAR
                ELSE IF FIXED THEN (IF lapsed THEN height + y*YEAR ELSE names[n].exp + y*YEAR)
                ELSE (IF mine THEN names[n].exp + y*YEAR ELSE y*YEAR)
  IN IF (Exists(n) /\ ~mine /\ ~lapsed) \/ bal[s] < cost THEN Fail(lbl)
     ELSE /\ names' = [names EXCEPT ![n] = [owner |-> s, exp |-> newexp]]
          /\ bal' = Send(bal, s, POL, cost)
          /\ UNCHANGED <<sale, bids, height>> /\ last' = lbl
List(s, n, p) ==
  LET lbl == [a |-> "list", s |-> s, n |-> n, p |-> p, ok |-> TRUE]
  IN IF sale[n].lister # "none" \/ ~Live(n) \/ names[n].owner # s THEN Fail(lbl)
     ELSE sale' = [sale EXCEPT ![n] = [lister |-> s, price |-> p]] /\ UNCHANGED <<names, bids, bal, height>> /\ last' = lbl
Delist(s, n) ==
  LET lbl == [a |-> "delist", s |-> s, n |-> n, ok |-> TRUE]
  IN IF sale[n].lister # s \/ ~Exists(n) \/ names[n].owner # s THEN Fail(lbl)
     ELSE sale' = [sale EXCEPT ![n] = [lister |-> "none", price |-> 0]] /\ UNCHANGED <<names, bids, bal, height>> /\ last' = lbl
Buy(s, n) ==
  LET lbl == [a |-> "buy", s |-> s, n |-> n, ok |-> TRUE]
  IN IF sale[n].lister = "none" \/ ~Live(n) \/ names[n].owner = s \/ bal[s] < sale[n].price
        \/ (FIXED /\ names[n].owner # sale[n].lister) THEN Fail(lbl)
     ELSE /\ bal' = Send(bal, s, sale[n].lister, sale[n].price)
          /\ names' = [names EXCEPT ![n].owner = s]
          /\ sale' = [sale EXCEPT ![n] = [lister |-> "none", price |-> 0]]
          /\ UNCHANGED <<bids, height>> /\ last' = lbl
Transfer(s, n, r) ==
  LET lbl == [a |-> "transfer", s |-> s, n |-> n, r |-> r, ok |-> TRUE]
  IN IF ~Live(n) \/ names[n].owner # s THEN Fail(lbl)
     ELSE names' = [names EXCEPT ![n].owner = r] /\ UNCHANGED <<sale, bids, bal, height>> /\ last' = lbl
Bid(s, n, p) ==
  LET lbl == [a |-> "bid", s |-> s, n |-> n, p |-> p, ok |-> TRUE]
      refund == IF FIXED THEN bids[<<s,n>>] ELSE 0
  IN IF bal[s] + refund < p THEN Fail(lbl)
     ELSE bal' = Send(Send(bal, MOD, s, refund), s, MOD, p) /\ bids' = [bids EXCEPT ![<<s,n>>] = p]
          /\ UNCHANGED <<names, sale, height>> /\ last' = lbl
Cancel(s, n) ==
  LET lbl == [a |-> "cancel", s |-> s, n |-> n, ok |-> TRUE]
  IN IF bids[<<s,n>>] = 0 THEN Fail(lbl)
     ELSE bal' = Send(bal, MOD, s, bids[<<s,n>>]) /\ bids' = [bids EXCEPT ![<<s,n>>] = 0]
          /\ UNCHANGED <<names, sale, height>> /\ last' = lbl
Accept(s, n, b) ==
  LET lbl == [a |-> "accept", s |-> s, n |-> n, b |-> b, ok |-> TRUE]
  IN IF ~Live(n) \/ names[n].owner # s \/ bids[<<b,n>>] = 0 THEN Fail(lbl)
     ELSE bal' = Send(bal, MOD, s, bids[<<b,n>>]) /\ bids' = [bids EXCEPT ![<<b,n>>] = 0]
          /\ names' = [names EXCEPT ![n].owner = b] /\ UNCHANGED <<sale, height>> /\ last' = lbl
Advance(d) == height + d <= MAXH /\ height' = height + d /\ UNCHANGED <<names, sale, bids, bal>> /\ last' = [a |-> "advance", d |-> d, ok |-> TRUE]
Next == \/ \E s \in Acc, n \in Names : Register(s, n, 1) \/ Delist(s, n) \/ Buy(s, n) \/ Cancel(s, n)
        \/ \E s \in Acc, n \in Names, p \in Prices : List(s, n, p) \/ Bid(s, n, p)
        \/ \E s \in Acc, n \in Names, r \in Acc : (r # s /\ Transfer(s, n, r)) \/ Accept(s, n, r)
        \/ \E d \in {1, YEAR} : Advance(d)
Spec == Init /\ [][Next]_<<vars, last>>
View == vars
\* ---- properties ----
Escrow == bal[MOD] = 0 + (LET S[X \in SUBSET (Acc \X Names)] == IF X = {} THEN 0 ELSE LET x == CHOOSE x \in X : TRUE IN bids[x] + S[X \ {x}] IN S[Acc \X Names])
C09 == Escrow
\* C08: live name changes owner only with consent of the owner immediately before, who gets paid
OwnerStep(n) ==
  LET o == names[n].owner  o2 == names'[n].owner  l == last' IN
  (Live(n) /\ o2 # o) =>
     \/ l.a = "transfer" /\ l.s = o /\ l.n = n
     \/ l.a = "accept" /\ l.s = o /\ l.n = n /\ bal'[o] = bal[o] + bids[<<l.b, n>>]
     \/ l.a = "buy" /\ l.n = n /\ sale[n].lister = o /\ bal'[o] = bal[o] + sale[n].price
     \/ l.a = "register" /\ l.s = o2 /\ l.n = n /\ FALSE  \* a live name cannot be re-registered by another
C08Step == \A n \in Names : OwnerStep(n)
C08 == [][C08Step]_<<vars, last>>
C16Step == (last'.a = "register" /\ last'.ok) =>
             LET n == last'.n IN names'[n].owner = last'.s /\ names'[n].exp >= height + last'.y * YEAR
                 /\ bal'[POL] = bal[POL] + COST * last'.y /\ bal'[last'.s] = bal[last'.s] - COST * last'.y
C16 == [][C16Step]_<<vars, last>>
====

CONSTANTS Acc = {"a","b","c"} Names = {"n1"} YEAR = 3 COST = 2 MAXH = 8 FIXED = TRUE Prices = {1,2} STRICT = TRUE
SPECIFICATION TSpec
CONSTRAINT HW
INVARIANT C09
PROPERTY TC08 TC16
POSTCONDITION Accepted
CHECK_DEADLOCK FALSE

CONSTANTS Acc = {"a","b","c"} Names = {"n1"} YEAR = 3 COST = 2 MAXH = 8 FIXED = TRUE Prices = {1,2}
SPECIFICATION Spec
VIEW View
INVARIANT C09
PROPERTY C08 C16
CHECK_DEADLOCK FALSE

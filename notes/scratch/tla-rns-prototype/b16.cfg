CONSTANTS Acc = {"a","b","c"} Names = {"n1"} YEAR = 3 COST = 2 MAXH = 8 FIXED = FALSE Prices = {1,2}
SPECIFICATION Spec
VIEW View
PROPERTY C16
CHECK_DEADLOCK FALSE

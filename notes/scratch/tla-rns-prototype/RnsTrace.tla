---- MODULE RnsTrace ----
EXTENDS Rns, Json
CONSTANT STRICT
VARIABLES l, stack
Trace == ndJsonDeserialize("trace.ndjson")
tvars == <<vars, last, l, stack>>
E == Trace[l]
LoggedBids(p) == [x \in Acc \X Names |-> 0]  \* prototype: no bids in this trace
Logged(p) == /\ names' = [n \in Names |-> p.names[n]]
             /\ sale' = [n \in Names |-> p.sale[n]]
             /\ bids' = LoggedBids(p)
             /\ bal' = [a \in DOMAIN bal |-> p.bal[a]]
             /\ height' = p.height
Lbl(e) == [f \in (DOMAIN e) \ {"post"} |-> e[f]]
Step(A) == /\ l <= Len(Trace) /\ l' = l + 1
           /\ (STRICT => A)
           /\ Logged(E.post) /\ last' = Lbl(E)
           /\ stack' = Append(stack, <<names, sale, bids, bal, height>>)
TInit == Init /\ l = 1 /\ stack = <<>>
TRegister == E.a = "register" /\ Step(Register(E.s, E.n, E.y))
TList == E.a = "list" /\ Step(List(E.s, E.n, E.p))
TTransfer == E.a = "transfer" /\ Step(Transfer(E.s, E.n, E.r))
TBuy == E.a = "buy" /\ Step(Buy(E.s, E.n))
TPop == /\ E.a = "pop" /\ l' = l + 1
        /\ LET k == Len(stack) - E.k + 1  s == stack[k] IN
             /\ names' = s[1] /\ sale' = s[2] /\ bids' = s[3] /\ bal' = s[4] /\ height' = s[5]
             /\ stack' = SubSeq(stack, 1, k - 1)
        /\ last' = [a |-> "pop", ok |-> TRUE]
TNext == l <= Len(Trace) /\ (TRegister \/ TList \/ TTransfer \/ TBuy \/ TPop)
TSpec == TInit /\ [][TNext]_tvars
HW == TLCSet(1, IF TLCGet(1) < l THEN l ELSE TLCGet(1))
Accepted == IF TLCGet(1) = Len(Trace) + 1 THEN TRUE ELSE Print(<<"REJECTED_AT", TLCGet(1), Trace[TLCGet(1)]>>, FALSE)
ASSUME TLCSet(1, 0)
TC08 == [][last'.a # "pop" => C08Step]_tvars
TC16 == [][last'.a # "pop" => C16Step]_tvars
====

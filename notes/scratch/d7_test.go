package fz

import (
	"fmt"
	"math/big"
	"math/rand"
	"testing"

	sdk "github.com/cosmos/cosmos-sdk/types"
)

// tolerance analysis for C12 (gauge release) and C03 (share) rounding: code formula with sdk.Dec vs exact floor
func TestRounding(t *testing.T) {
	r := rand.New(rand.NewSource(1))
	maxDev := int64(0)
	over := 0
	for it := 0; it < 200000; it++ {
		amount := r.Int63n(1e9) + 1
		total := (r.Int63n(400) + 1) * 86400 * 1e6 // microseconds, whole days
		if r.Intn(3) == 0 { total = r.Int63n(1e12) + 1 }
		// a sequence of pull times
		var withdrawn int64
		tcur := int64(0)
		for k := 0; k < 6; k++ {
			step := r.Int63n(total/3 + 1)
			tcur += step
			if tcur > total { tcur = total }
			left := total - tcur
			ratio := sdk.NewDec(1).Sub(sdk.NewDec(left).Quo(sdk.NewDec(total)))
			nb := ratio.Mul(sdk.NewDec(amount)).Sub(sdk.NewDec(withdrawn))
			amt := nb.TruncateInt64()
			if amt < 0 { t.Fatalf("negative release %d", amt) }
			withdrawn += amt
			exact := new(big.Int).Mul(big.NewInt(amount), big.NewInt(tcur))
			exact.Quo(exact, big.NewInt(total))
			dev := withdrawn - exact.Int64()
			if dev < 0 { dev = -dev }
			if dev > maxDev { maxDev = dev }
			if withdrawn > amount { over++ }
		}
	}
	fmt.Println("gauge: max |cumulative - floor(exact)| =", maxDev, " over-deposit cases:", over)
	// shares
	maxDev = 0
	sumOver := 0
	for it := 0; it < 200000; it++ {
		n := r.Intn(5) + 1
		sizes := make([]int64, n)
		var T int64
		for i := range sizes { sizes[i] = r.Int63n(1e6) + 1; T += sizes[i] }
		if r.Intn(2) == 0 { T += r.Int63n(1e6) } // dropped provers' weight stays in the denominator
		R := r.Int63n(1e9)
		var sum int64
		for _, s := range sizes {
			pct := sdk.NewDec(s).Quo(sdk.NewDec(T))
			paid := pct.Mul(sdk.NewInt(R).ToDec()).TruncateInt().Int64()
			exact := new(big.Int).Mul(big.NewInt(R), big.NewInt(s))
			exact.Quo(exact, big.NewInt(T))
			dev := paid - exact.Int64()
			if dev < 0 { dev = -dev }
			if dev > maxDev { maxDev = dev }
			sum += paid
		}
		if sum > R { sumOver++ }
	}
	fmt.Println("share: max |paid - floor(exact)| =", maxDev, " sum>released cases:", sumOver)
}

package main

import (
	"crypto/sha256"
	"encoding/json"
	"fmt"
	"math/rand"
	"sort"
	"strings"

	sdk "github.com/cosmos/cosmos-sdk/types"

	fttypes "github.com/jackalLabs/canine-chain/v4/x/filetree/types"

	"vh/chain"
)

// ftFam drives x/filetree. All digests are derived here with the harness's own sha256 code (not the keeper's
// helpers) and decoded back to symbolic strings for the trace.
type ftFam struct {
	c      *chain.Chain
	base   sdk.Context
	ctx    sdk.Context
	accts  []string
	tracks []string
	rng    *rand.Rand
	dec    map[string]string // digest -> symbolic string
	raws   map[string]bool   // raw account strings seen in messages
}

func init() { families["ft"] = func() Family { return &ftFam{} } }

func (f *ftFam) Reseed(r *rand.Rand) { f.rng = r }

func hx(s string) string                     { h := sha256.Sum256([]byte(s)); return fmt.Sprintf("%x", h[:]) }
func ownerAddr(path, acctHash string) string { return hx("o" + path + acctHash) }
func viewerID(t, user string) string         { return hx("v" + t + user) }
func editorID(t, user string) string         { return hx("e" + t + user) }
func addMerkle(p, c string) string           { return hx(p + c) }
func merklePath(path string) string {
	total := ""
	for _, ch := range strings.Split(strings.TrimSuffix(path, "/"), "/") {
		total = hx(total + hx(ch))
	}
	return total
}

func (f *ftFam) Setup(cfg M, rng *rand.Rand) {
	f.rng = rng
	f.accts = strs(getl(cfg, "accts"), []string{"o", "e", "v", "x"})
	f.tracks = []string{"t1", "t2"}
	f.c = chain.New()
	for _, l := range f.accts {
		f.c.Acct(l)
	}
	f.base = f.c.Ctx
}

func (f *ftFam) Reset() M {
	f.ctx, _ = f.base.CacheContext()
	f.dec = map[string]string{}
	f.raws = map[string]bool{}
	for _, p := range []string{"s", "s/c", "s/d", "s/c/c", "s/c/d", "s/d/c", "s/d/d"} {
		f.dec[merklePath(p)] = p
	}
	for _, n := range []string{"c", "d", "s"} {
		f.dec[hx(n)] = "h:" + n
	}
	for _, l := range f.accts {
		a := f.c.Acct(l).S()
		f.dec[hx(a)] = "H:" + l
		for _, t := range f.tracks {
			f.dec[viewerID(t, a)] = "v|" + t + "|" + l
			f.dec[editorID(t, a)] = "e|" + t + "|" + l
		}
	}
	return f.Project()
}

// enc maps a symbolic token back to the real string.
func (f *ftFam) enc(sym string) string {
	if core := strings.TrimSpace(sym); core != sym && core != "" { // a token with blanks around it: the blanks are part of the string
		i := strings.Index(sym, core)
		return sym[:i] + f.enc(core) + sym[i+len(core):]
	}
	for d, s := range f.dec {
		if s == sym {
			return d
		}
	}
	return sym
}
func (f *ftFam) sym(d string) string {
	if core := strings.TrimSpace(d); core != d && core != "" {
		i := strings.Index(d, core)
		return d[:i] + f.sym(core) + d[i+len(core):]
	}
	if s, ok := f.dec[d]; ok {
		return s
	}
	return d
}

// acctHash returns the "account" string of a message for an owner token: label -> hex(sha256(address)); "raw:x" -> x.
func (f *ftFam) acctHash(owner string) string {
	if strings.HasPrefix(owner, "raw:") {
		f.raws[owner[4:]] = true
		return owner[4:]
	}
	for _, l := range f.accts {
		if l == owner {
			return hx(f.c.Acct(l).S())
		}
	}
	f.raws[owner] = true
	return owner
}

// symOwner decodes a stored owner address relative to the entry's address.
func (f *ftFam) symOwner(addrHex, ownerHex string) string {
	for _, l := range f.accts {
		if ownerHex == ownerAddr(addrHex, hx(f.c.Acct(l).S())) {
			return l
		}
	}
	for r := range f.raws {
		if ownerHex == ownerAddr(addrHex, r) {
			return "raw:" + r
		}
	}
	return ownerHex
}

func (f *ftFam) symKey(addrHex, ownerHex string) string {
	return f.sym(addrHex) + "/" + f.symOwner(addrHex, ownerHex) + "/"
}

// splitKey parses a symbolic key "addr/owner/" into (addr, owner).
func splitKey(k string) (string, string) {
	k = strings.TrimSuffix(k, "/")
	i := strings.LastIndex(k, "/")
	if i < 0 {
		return k, ""
	}
	return k[:i], k[i+1:]
}

func (f *ftFam) accessString(m M) string {
	if _, bad := m["!invalid"]; bad {
		return "not a json map"
	}
	out := map[string]string{}
	for id, k := range m {
		out[f.enc(id)] = fmt.Sprint(k)
	}
	b, _ := json.Marshal(out)
	return string(b)
}

func (f *ftFam) decodeAccess(s string) M {
	var m map[string]string
	if err := json.Unmarshal([]byte(s), &m); err != nil {
		return M{"!invalid": s}
	}
	out := M{}
	for id, k := range m {
		out[f.sym(id)] = k
	}
	return out
}

func seqOf(st M, k string) []string {
	var out []string
	for _, v := range getl(st, k) {
		out = append(out, fmt.Sprint(v))
	}
	return out
}

func (f *ftFam) Apply(st M) M {
	a := gets(st, "a")
	s := f.c.Acct(gets(st, "s"))
	ev := M{"a": a, "s": gets(st, "s")}
	x := M{}
	ev["x"] = x
	var msg sdk.Msg
	switch a {
	case "provision":
		v, e := getm(st, "viewers"), getm(st, "editors")
		t := gets(st, "tracking")
		msg = &fttypes.MsgProvisionFileTree{Creator: s.S(), Viewers: f.accessString(v), Editors: f.accessString(e), TrackingNumber: t}
		root := merklePath("s")
		ev["key"] = f.symKey(root, ownerAddr(root, hx(s.S())))
		ev["addr"] = f.sym(root)
		ev["viewers"], ev["editors"], ev["tracking"] = f.decodeAccess(f.accessString(v)), f.decodeAccess(f.accessString(e)), t
	case "post":
		// scenario form: caddr "p/child", owner token; the parent address is everything before the last '/'
		caddrS := gets(st, "caddr")
		i := strings.LastIndex(caddrS, "/")
		paddrS, child := caddrS, ""
		if i >= 0 {
			paddrS, child = caddrS[:i], caddrS[i+1:]
		}
		owner := gets(st, "owner")
		acct := f.acctHash(owner)
		hp := f.enc(paddrS)
		hc := hx(child)
		if gets(st, "rawchild") != "" { // crafted child string, sent as is
			hc = gets(st, "rawchild")
		}
		v, e := getm(st, "viewers"), getm(st, "editors")
		msg = &fttypes.MsgPostFile{Creator: s.S(), Account: acct, HashParent: hp, HashChild: hc, Contents: gets(st, "contents"),
			Viewers: f.accessString(v), Editors: f.accessString(e), TrackingNumber: gets(st, "tracking")}
		ca := addMerkle(hp, hc)
		if _, known := f.dec[ca]; !known {
			f.dec[ca] = f.sym(hp) + "/" + strings.TrimPrefix(f.sym(hc), "h:")
		}
		ev["pkey"] = f.symKey(hp, ownerAddr(hp, acct))
		ev["ckey"] = f.symKey(ca, ownerAddr(ca, acct))
		ev["caddr"] = f.sym(ca)
		ev["owner"] = f.symOwner(ca, ownerAddr(ca, acct))
		ev["viewers"], ev["editors"] = f.decodeAccess(f.accessString(v)), f.decodeAccess(f.accessString(e))
		ev["tracking"], ev["contents"] = gets(st, "tracking"), gets(st, "contents")
	case "delete":
		addrS, owner := splitKey(gets(st, "key"))
		hp, acct := f.enc(addrS), f.acctHash(owner)
		msg = &fttypes.MsgDeleteFile{Creator: s.S(), HashPath: hp, Account: acct}
		ev["key"] = f.symKey(hp, ownerAddr(hp, acct))
	case "chown":
		addrS, owner := splitKey(gets(st, "key"))
		hp, acct := f.enc(addrS), f.acctHash(owner)
		nacct := f.acctHash(gets(st, "newowner"))
		msg = &fttypes.MsgChangeOwner{Creator: s.S(), Address: hp, FileOwner: acct, NewOwner: nacct}
		ev["key"] = f.symKey(hp, ownerAddr(hp, acct))
		ev["newkey"] = f.symKey(hp, ownerAddr(hp, nacct))
		ev["newowner"] = f.symOwner(hp, ownerAddr(hp, nacct))
	case "addviewers", "addeditors", "rmviewers", "rmeditors", "resetviewers", "reseteditors":
		addrS, owner := splitKey(gets(st, "key"))
		hp := f.enc(addrS)
		fo := ownerAddr(hp, f.acctHash(owner))
		if r := gets(st, "rawowner"); r != "" { // crafted owner-address string
			fo = r
		}
		if r := gets(st, "rawaddr"); r != "" {
			hp = r
		}
		var ids, keys []string
		for _, id := range seqOf(st, "ids") {
			ids = append(ids, f.enc(id))
		}
		keys = seqOf(st, "keys")
		ev["key"] = f.sym(hp) + "/" + f.symOwner(hp, fo) + "/"
		symIds := []interface{}{}
		for _, id := range strings.Split(strings.Join(ids, ","), ",") { // what the chain will see after its own split
			symIds = append(symIds, f.sym(id))
		}
		symKeys := []interface{}{}
		for _, k := range strings.Split(strings.Join(keys, ","), ",") {
			symKeys = append(symKeys, k)
		}
		switch a {
		case "addviewers":
			msg = &fttypes.MsgAddViewers{Creator: s.S(), ViewerIds: strings.Join(ids, ","), ViewerKeys: strings.Join(keys, ","), Address: hp, FileOwner: fo}
			ev["ids"], ev["keys"] = symIds, symKeys
		case "addeditors":
			msg = &fttypes.MsgAddEditors{Creator: s.S(), EditorIds: strings.Join(ids, ","), EditorKeys: strings.Join(keys, ","), Address: hp, FileOwner: fo}
			ev["ids"], ev["keys"] = symIds, symKeys
		case "rmviewers":
			msg = &fttypes.MsgRemoveViewers{Creator: s.S(), ViewerIds: strings.Join(ids, ","), Address: hp, FileOwner: fo}
			ev["ids"] = symIds
		case "rmeditors":
			msg = &fttypes.MsgRemoveEditors{Creator: s.S(), EditorIds: strings.Join(ids, ","), Address: hp, FileOwner: fo}
			ev["ids"] = symIds
		case "resetviewers":
			msg = &fttypes.MsgResetViewers{Creator: s.S(), Address: hp, FileOwner: fo}
		case "reseteditors":
			msg = &fttypes.MsgResetEditors{Creator: s.S(), Address: hp, FileOwner: fo}
		}
	default:
		die(2, "ft: unknown action %q", a)
	}
	res, err := f.c.Msg(f.ctx, msg)
	if err != nil && strings.HasPrefix(err.Error(), "validatebasic:") {
		return nil // rejected statelessly: never reaches the state machine
	}
	ev["ok"] = err == nil
	if err != nil {
		x["err"] = err.Error()
	}
	if a == "post" && err == nil && res != nil {
		var r fttypes.MsgPostFileResponse
		if r.Unmarshal(res.Data) == nil {
			x["path"] = f.sym(r.Path)
		}
	}
	return ev
}

func (f *ftFam) Project() M {
	entries := M{}
	for _, e := range f.c.App.FileTreeKeeper.GetAllFiles(f.ctx) {
		entries[f.symKey(e.Address, e.Owner)] = M{"addr": f.sym(e.Address), "owner": f.symOwner(e.Address, e.Owner),
			"viewers": f.decodeAccess(e.ViewingAccess), "editors": f.decodeAccess(e.EditAccess), "tracking": e.TrackingNumber, "contents": e.Contents}
	}
	// the raw store must hold exactly these entries under exactly these keys
	raw := f.c.DumpStore(f.ctx, fttypes.StoreKey)
	n := 0
	for _, kv := range raw {
		if strings.HasPrefix(string(kv[0]), fttypes.FilesKeyPrefix) {
			n++
		}
	}
	if n != len(entries) {
		entries["!store-mismatch"] = M{"addr": fmt.Sprint(n), "owner": "", "viewers": M{}, "editors": M{}, "tracking": "", "contents": ""}
	}
	return M{"entries": entries}
}

func (f *ftFam) Random(rng *rand.Rand) M {
	acc := func() string { return f.accts[rng.Intn(len(f.accts))] }
	tr := func() string { return f.tracks[rng.Intn(2)] }
	all := f.c.App.FileTreeKeeper.GetAllFiles(f.ctx)
	keys := []string{}
	for _, e := range all {
		keys = append(keys, f.symKey(e.Address, e.Owner))
	}
	sort.Strings(keys)
	pick := func() (string, string) { // a key and (usually) its owner
		if len(keys) == 0 {
			return "s/" + acc() + "/", acc()
		}
		k := keys[rng.Intn(len(keys))]
		_, o := splitKey(k)
		s := o
		if rng.Intn(3) == 0 || strings.HasPrefix(o, "raw:") || len(o) > 8 {
			s = acc()
		}
		return k, s
	}
	access := func(kind, t, own string) M {
		m := M{}
		id := func(a string) string { return kind + "|" + t + "|" + a }
		m[id(own)] = "k"
		for _, a := range f.accts {
			if rng.Intn(3) == 0 {
				m[id(a)] = "k"
			}
		}
		if rng.Intn(12) == 0 {
			m = M{"!invalid": "x"}
		}
		if rng.Intn(15) == 0 {
			m["crafted/id"] = "k"
		}
		return m
	}
	ids := func(kind, t string) []interface{} {
		var l []interface{}
		for n := 1 + rng.Intn(2); n > 0; n-- {
			switch rng.Intn(7) {
			case 0:
				l = append(l, "crafted/id")
			case 1:
				l = append(l, "")
			case 2: // a real id with blanks around it names a different id (nobody holds it)
				pad := [][2]string{{" ", ""}, {"", " "}, {" ", " "}}[rng.Intn(3)]
				l = append(l, pad[0]+kind+"|"+t+"|"+acc()+pad[1])
			default:
				l = append(l, kind+"|"+t+"|"+acc())
			}
		}
		return l
	}
	trackOf := func(k string) string {
		for _, e := range all {
			if f.symKey(e.Address, e.Owner) == k {
				return e.TrackingNumber
			}
		}
		return tr()
	}
	switch r := rng.Intn(100); {
	case r < 10 || len(keys) == 0:
		s, t := acc(), tr()
		return M{"a": "provision", "s": s, "tracking": t, "viewers": access("v", t, s), "editors": access("e", t, s)}
	case r < 35:
		k, _ := pick()
		paddr, owner := splitKey(k)
		child := []string{"c", "d"}[rng.Intn(2)]
		t := tr()
		s := acc()
		if rng.Intn(2) == 0 && !strings.HasPrefix(owner, "raw:") && len(owner) < 8 {
			s = owner
		}
		st := M{"a": "post", "s": s, "caddr": paddr + "/" + child, "owner": owner, "viewers": access("v", t, owner), "editors": access("e", t, owner), "tracking": t, "contents": []string{"data", ""}[rng.Intn(2)]}
		if rng.Intn(8) == 0 {
			st["owner"] = acc() // a folder of somebody else
		}
		if rng.Intn(10) == 0 {
			st["rawchild"] = []string{"a/b", "/", "", "x,y"}[rng.Intn(4)]
		}
		return st
	case r < 45:
		k, s := pick()
		return M{"a": "delete", "s": s, "key": k}
	case r < 55:
		k, s := pick()
		no := acc()
		if rng.Intn(6) == 0 {
			no = "raw:junk/owner"
		}
		return M{"a": "chown", "s": s, "key": k, "newowner": no}
	default:
		k, s := pick()
		t := trackOf(k)
		kinds := []string{"addviewers", "addeditors", "rmviewers", "rmeditors", "resetviewers", "reseteditors"}
		a := kinds[rng.Intn(6)]
		kind := "v"
		if strings.HasSuffix(a, "editors") {
			kind = "e"
		}
		st := M{"a": a, "s": s, "key": k}
		if strings.HasPrefix(a, "add") || strings.HasPrefix(a, "rm") {
			l := ids(kind, t)
			st["ids"] = l
			if strings.HasPrefix(a, "add") {
				ks := []interface{}{}
				for range l {
					ks = append(ks, "k2")
				}
				if rng.Intn(8) == 0 {
					ks = ks[:len(ks)-1]
				}
				st["keys"] = ks
			}
		}
		if rng.Intn(15) == 0 { // crafted split of the same key string
			addrS, owner := splitKey(k)
			full := ownerAddr(f.enc(addrS), f.acctHash(owner))
			st["rawaddr"] = f.enc(addrS) + "/" + full[:10]
			st["rawowner"] = full[10:]
		}
		return st
	}
}

package main

import (
	"crypto/sha256"
	"fmt"
	"math/rand"
	"strings"

	sdk "github.com/cosmos/cosmos-sdk/types"

	fttypes "github.com/jackalLabs/canine-chain/v4/x/filetree/types"

	"vh/chain"
)

// mpFam evaluates the real types.MerklePath / types.AddToMerkle on every string over a 3-letter alphabet
// (mapped to several concrete byte strings) up to a length bound. One scenario per alphabet mapping.
type mpFam struct {
	c      *chain.Chain
	base   sdk.Context
	maps   [][3]string
	L      int
	queue  []M
	cur    int
	shaped []string // segment names picked by the shape of their hex digest
}

func init() { families["mp"] = func() Family { return &mpFam{} } }

func (f *mpFam) Setup(cfg M, rng *rand.Rand) {
	f.L = int(geti0(cfg, "L", 6))
	f.maps = [][3]string{
		{"a", "b", "/"},
		{"é", "日本", "/"},
		{strings.Repeat("x", 70), "y", "/"}, // long segment pieces
		{" ", ".", "/"},
		{"A", "a", "/"},
		{"\x00", "\xff\xfe", "/"},
		{"%", "%s", "/"},  // segments that are printf verbs
		{"%d", "\\", "/"}, // and a backslash
	}
	f.cur = -1
	// names whose sha256 hex digest starts with "00", "0", "f", "a0", ends with "0", starts with a decimal digit other than 0
	want := []func(h string) bool{
		func(h string) bool { return strings.HasPrefix(h, "00") },
		func(h string) bool { return strings.HasPrefix(h, "0") && !strings.HasPrefix(h, "00") },
		func(h string) bool { return strings.HasPrefix(h, "f") },
		func(h string) bool { return strings.HasPrefix(h, "a0") },
		func(h string) bool { return strings.HasSuffix(h, "0") },
		func(h string) bool { return h[0] >= '1' && h[0] <= '9' },
	}
	f.shaped = make([]string, len(want))
	for i, ok := range want {
		for n := 0; ; n++ {
			name := fmt.Sprintf("seg%d", n)
			if ok(hx(name)) {
				f.shaped[i] = name
				break
			}
		}
	}
	f.c = chain.New()
	f.c.Acct("o")
	f.base = f.c.Ctx
}

// postChain posts root -> child -> grandchild on the real chain and returns the addresses the chain answered with.
func (f *mpFam) postChain(segs []string) []string {
	ctx, _ := f.base.CacheContext()
	o := f.c.Acct("o")
	acct := hx(o.S())
	ed := fmt.Sprintf("{\"%s\":\"k\"}", editorID("t", o.S()))
	if _, err := f.c.Msg(ctx, &fttypes.MsgProvisionFileTree{Creator: o.S(), Viewers: "{}", Editors: ed, TrackingNumber: "t"}); err != nil {
		die(2, "mp: provision: %v", err)
	}
	parent := fttypes.MerklePath("s")
	var out []string
	for _, sg := range segs {
		res, err := f.c.Msg(ctx, &fttypes.MsgPostFile{Creator: o.S(), Account: acct, HashParent: parent, HashChild: hx(sg), Contents: "c", Viewers: "{}", Editors: ed, TrackingNumber: "t"})
		if err != nil {
			die(2, "mp: post: %v", err)
		}
		var r fttypes.MsgPostFileResponse
		if e := r.Unmarshal(res.Data); e != nil {
			die(2, "mp: response: %v", e)
		}
		// the entry must also be STORED at the address the chain answered with (owned by the folder's account)
		if _, found := f.c.App.FileTreeKeeper.GetFiles(ctx, r.Path, ownerAddr(r.Path, acct)); !found {
			out = append(out, "!not-stored-at:"+r.Path)
		} else {
			out = append(out, r.Path)
		}
		parent = r.Path
	}
	return out
}

// SetScenarioIndex selects the alphabet mapping: scenario i uses mapping i mod 8 (also across separate vh processes).
func (f *mpFam) SetScenarioIndex(i int) { f.cur = i - 1 }

func (f *mpFam) Reset() M {
	f.cur++
	m := f.maps[f.cur%len(f.maps)]
	f.queue = nil
	var gen func(prefix []string)
	letters := []string{"a", "b", "/"}
	gen = func(prefix []string) {
		f.queue = append(f.queue, M{"a": "mp", "str": append([]string{}, prefix...), "map": m})
		if len(prefix) == f.L {
			return
		}
		for _, c := range letters {
			gen(append(prefix, c))
		}
	}
	gen(nil)
	// shorter strings first, so that a trimmed / parent string is always seen before its extensions
	byLen := [][]M{}
	for i := 0; i <= f.L; i++ {
		byLen = append(byLen, nil)
	}
	for _, q := range f.queue {
		n := len(q["str"].([]string))
		byLen[n] = append(byLen[n], q)
	}
	f.queue = nil
	for _, l := range byLen {
		f.queue = append(f.queue, l...)
	}
	for _, x := range []string{"a", "b", "ab", "ba"} {
		for _, y := range []string{"a", "b", "bb"} {
			f.queue = append(f.queue, M{"a": "postpath", "segs": []string{x, y}, "map": m})
		}
	}
	// segment names chosen by the shape of their digest (the handler receives the child as a hex digest): leading zero digits,
	// leading / trailing 'a'..'f', all-decimal prefixes; "raw" = used as they are, not through the alphabet mapping
	for _, pair := range [][]string{{f.shaped[0], f.shaped[1]}, {f.shaped[2], f.shaped[0]}, {f.shaped[3], f.shaped[4]}, {f.shaped[1], f.shaped[5]}} {
		f.queue = append(f.queue, M{"a": "postpath", "segs": pair, "map": m, "raw": true})
	}
	return M{}
}

func (f *mpFam) Apply(st M) M {
	m := st["map"].([3]string)
	if gets(st, "a") == "postpath" {
		var real []string
		plain := "s"
		chars := []interface{}{"s"}
		var want []interface{}
		for _, sg := range st["segs"].([]string) {
			r := strings.NewReplacer("a", m[0], "b", m[1]).Replace(sg)
			if raw, _ := st["raw"].(bool); raw {
				r = sg
			}
			real = append(real, r)
			plain += "/" + r
			want = append(want, fttypes.MerklePath(plain))
			chars = append(chars, "/")
			for _, ch := range sg {
				chars = append(chars, string(ch))
			}
		}
		got := []interface{}{}
		for _, g := range f.postChain(real) {
			got = append(got, g)
		}
		return M{"a": "postpath", "path": chars, "got": got, "want": want, "ok": true}
	}
	chars := st["str"].([]string)
	conc := func(cs []string) string {
		var b strings.Builder
		for _, c := range cs {
			switch c {
			case "a":
				b.WriteString(m[0])
			case "b":
				b.WriteString(m[1])
			default:
				b.WriteString(m[2])
			}
		}
		return b.String()
	}
	s := conc(chars)
	d := fttypes.MerklePath(s)
	ad := ""
	last := -1
	for i, c := range chars {
		if c == "/" {
			last = i
		}
	}
	if last >= 0 {
		parent, child := conc(chars[:last]), conc(chars[last+1:])
		h := sha256.Sum256([]byte(child))
		ad = fttypes.AddToMerkle(fttypes.MerklePath(parent), fmt.Sprintf("%x", h[:]))
	}
	out := []interface{}{}
	for _, c := range chars {
		out = append(out, c)
	}
	return M{"a": "mp", "str": out, "d": d, "ad": ad, "ok": true}
}

func (f *mpFam) Project() M { return M{} }

func (f *mpFam) Random(rng *rand.Rand) M {
	if len(f.queue) == 0 {
		return nil
	}
	st := f.queue[0]
	f.queue = f.queue[1:]
	return st
}

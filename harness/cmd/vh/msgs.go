package main

import (
	"math"
	"math/rand"
	"reflect"
	"sort"
	"strings"

	sdk "github.com/cosmos/cosmos-sdk/types"

	"github.com/jackalLabs/canine-chain/v4/app"
)

// customMsgTypes lists the registered sdk.Msg implementations of the custom modules (type URLs), sorted.
func customMsgTypes(a *app.JackalApp) []string {
	var out []string
	for _, u := range a.InterfaceRegistry.ListImplementations("cosmos.base.v1beta1.Msg") {
		if strings.HasPrefix(u, "/canine_chain.") {
			out = append(out, u)
		}
	}
	sort.Strings(out)
	return out
}

func newMsg(a *app.JackalApp, url string) sdk.Msg {
	m, err := a.InterfaceRegistry.Resolve(url)
	if err != nil {
		die(2, "resolve %s: %v", url, err)
	}
	msg, ok := m.(sdk.Msg)
	if !ok {
		die(2, "%s is not an sdk.Msg", url)
	}
	return msg
}

// addrField tells whether a string field is address-typed (by name).
func addrField(name string) bool {
	switch name {
	case "Creator", "ForAddress", "Receiver", "Prover", "Owner", "From", "To", "ClaimAddress", "ProviderAddress", "Provider", "Address", "Referral":
		return true
	}
	return false
}

// fillMsg assigns every field of msg. pick chooses the value of a field given its name and kind.
type picker struct {
	addr   func(field string) string
	str    func(field string) string
	i64    func(field string) int64
	bytes_ func(field string) []byte
	b      func() bool
	coin   func(field string) sdk.Coin
	strs   func(field string) []string
}

func fillMsg(msg sdk.Msg, p picker) []string {
	var addrFields []string
	v := reflect.ValueOf(msg).Elem()
	t := v.Type()
	for i := 0; i < v.NumField(); i++ {
		f := v.Field(i)
		name := t.Field(i).Name
		if !f.CanSet() || strings.HasPrefix(name, "XXX_") {
			continue
		}
		switch f.Kind() {
		case reflect.String:
			if addrField(name) {
				f.SetString(p.addr(name))
				addrFields = append(addrFields, name)
			} else {
				f.SetString(p.str(name))
			}
		case reflect.Int64, reflect.Int32, reflect.Int:
			f.SetInt(p.i64(name))
		case reflect.Uint64, reflect.Uint32:
			x := p.i64(name)
			if x < 0 {
				x = 0
			}
			f.SetUint(uint64(x))
		case reflect.Bool:
			f.SetBool(p.b())
		case reflect.Slice:
			switch f.Type().Elem().Kind() {
			case reflect.Uint8:
				f.SetBytes(p.bytes_(name))
			case reflect.String:
				f.Set(reflect.ValueOf(p.strs(name)))
			}
		case reflect.Struct:
			if f.Type() == reflect.TypeOf(sdk.Coin{}) {
				f.Set(reflect.ValueOf(p.coin(name)))
			}
		}
	}
	return addrFields
}

var oddStrings = []string{"", "{}", "a/b", "x.jkl", "ab.ibc", "{\"k\":1}", "/", ",", "https://a.b.com", "http://localhost", "ujkl", "not json",
	strings.Repeat("z", 300), "e3b0c44298fc1c149afbf4c8996fb92427ae41e4649b934ca495991b7852b855", "0", "-1", "jkl1notanaddress"}
var oddInts = []int64{math.MinInt64, -1_000_000, -1, 0, 1, 2, 3, 30, 365, 1000, 1 << 31, 1 << 40, 1 << 62, math.MaxInt64}

func advPicker(rng *rand.Rand, addrs []string, roots [][]byte) picker {
	return picker{
		addr: func(f string) string {
			if rng.Intn(12) == 0 {
				return oddStrings[rng.Intn(len(oddStrings))]
			}
			return addrs[rng.Intn(len(addrs))]
		},
		str: func(f string) string { return oddStrings[rng.Intn(len(oddStrings))] },
		i64: func(f string) int64 { return oddInts[rng.Intn(len(oddInts))] },
		bytes_: func(f string) []byte {
			if len(roots) > 0 && rng.Intn(3) != 0 {
				return roots[rng.Intn(len(roots))]
			}
			b := make([]byte, rng.Intn(70))
			rng.Read(b)
			return b
		},
		b: func() bool { return rng.Intn(2) == 0 },
		coin: func(f string) sdk.Coin {
			return sdk.Coin{Denom: []string{"ujkl", "uusd"}[rng.Intn(2)], Amount: sdk.NewInt([]int64{0, 1, 7, 1_000_000, 1 << 40}[rng.Intn(5)])}
		},
		strs: func(f string) []string {
			n := rng.Intn(3)
			out := []string{}
			for ; n > 0; n-- {
				out = append(out, addrs[rng.Intn(len(addrs))])
			}
			return out
		},
	}
}

package main

import (
	"fmt"
	"math/rand"

	sdk "github.com/cosmos/cosmos-sdk/types"
	authtypes "github.com/cosmos/cosmos-sdk/x/auth/types"

	"github.com/jackalLabs/canine-chain/v4/app"
	mkeeper "github.com/jackalLabs/canine-chain/v4/x/jklmint/keeper"
	mtypes "github.com/jackalLabs/canine-chain/v4/x/jklmint/types"

	"vh/chain"
)

// mintFam drives x/jklmint through whole-app ABCI blocks; every scenario starts from a fresh chain whose
// mint parameters are given by its first step ("genesis").
type mintFam struct {
	c       *chain.Chain
	rng     *rand.Rand
	halted  bool
	stipend *chain.Acct
	// the stipend address is a governance parameter too: two accounts, `cur` is the configured one. The projected "stipend"
	// balance follows the configured account continuously (offset adjusted at every switch), so a payment to an account that is
	// no longer configured shows up under "other"
	stipend2 *chain.Acct
	cur      int
	off      int64
}

func init() { families["mint"] = func() Family { return &mintFam{} } }

func (f *mintFam) Reseed(r *rand.Rand) { f.rng = r }

func (f *mintFam) Setup(cfg M, rng *rand.Rand) { f.rng = rng }

func (f *mintFam) newChain(p M) {
	if f.c != nil {
		f.c.Close()
	}
	f.stipend = chain.NewAcct("stipend")
	f.stipend2 = chain.NewAcct("stipend2")
	f.cur, f.off = 1, 0
	f.c = chain.NewClosed(func(gs app.GenesisState, a *app.JackalApp) {
		var mg mtypes.GenesisState
		a.AppCodec().MustUnmarshalJSON(gs["jklmint"], &mg)
		f.setPar(&mg.Params, p)
		gs["jklmint"] = a.AppCodec().MustMarshalJSON(&mg)
	})
	f.halted = false
}

func (f *mintFam) setPar(mp *mtypes.Params, p M) {
	mp.TokensPerBlock = geti(p, "tpb")
	mp.MintDecrease = geti(p, "dec")
	mp.StakerRatio = geti(p, "sr")
	mp.DevGrantsRatio = geti(p, "dr")
	mp.StorageProviderRatio = geti(p, "pr")
	mp.StorageStipendAddress = f.stipendAcct().S()
}

func (f *mintFam) stipendAcct() *chain.Acct {
	if f.cur == 2 {
		return f.stipend2
	}
	return f.stipend
}

func (f *mintFam) Reset() M {
	f.newChain(M{"tpb": int64(10), "dec": int64(0), "sr": int64(80), "dr": int64(8), "pr": int64(12)})
	return f.Project()
}

func (f *mintFam) Apply(st M) M {
	a := gets(st, "a")
	switch a {
	case "genesis":
		f.newChain(getm(st, "p"))
		return M{"a": "genesis", "p": st["p"], "ok": true}
	case "setparams":
		if f.halted {
			return nil
		}
		if !f.c.Open {
			return nil
		}
		mp := f.c.App.MintKeeper.GetParams(f.c.Ctx)
		stN := int(geti0(st, "st", int64(f.cur)))
		if stN != 1 && stN != 2 {
			stN = f.cur
		}
		if stN != f.cur { // keep the projected balance continuous across the switch
			bal := func(a *chain.Acct) int64 {
				return f.c.App.BankKeeper.GetBalance(f.c.Ctx, a.Addr, "ujkl").Amount.Int64()
			}
			old := f.stipendAcct()
			f.cur = stN
			f.off += bal(old) - bal(f.stipendAcct())
		}
		f.setPar(&mp, getm(st, "p"))
		f.c.App.MintKeeper.SetParams(f.c.Ctx, mp)
		return M{"a": "setparams", "p": st["p"], "st": int64(f.cur), "ok": true}
	case "block":
		if f.halted {
			return nil
		}
		p := f.c.Next()
		if p != nil {
			f.halted = true
			return M{"a": "block", "ok": false, "x": fmt.Sprint(p)}
		}
		return M{"a": "block", "ok": true}
	}
	die(2, "mint: unknown action %q", a)
	return nil
}

func (f *mintFam) Project() M {
	ctx := f.c.Ctx
	mk := f.c.App.MintKeeper
	prev := int64(-1)
	if mb, ok := mk.GetMintedBlock(ctx, f.c.H); ok && !f.halted {
		prev = mb.Minted
	}
	if f.halted { // the block that panicked was not committed: report the state of the last good block
		if mb, ok := mk.GetMintedBlock(ctx, f.c.H-1); ok {
			prev = mb.Minted
		}
	}
	mp := mk.GetParams(ctx)
	dev, _ := mkeeper.GetDevGrantsAccount()
	get := func(a sdk.AccAddress) int64 { return f.c.App.BankKeeper.GetBalance(ctx, a, "ujkl").Amount.Int64() }
	stakers := get(authtypes.NewModuleAddress("fee_collector")) + get(authtypes.NewModuleAddress("distribution"))
	b := M{"stakers": stakers, "dev": get(dev), "stipend": get(f.stipendAcct().Addr) + f.off, "m:jklmint": get(authtypes.NewModuleAddress("jklmint"))}
	supply := f.c.App.BankKeeper.GetSupply(ctx, "ujkl").Amount.Int64()
	b["other"] = supply - stakers - b["dev"].(int64) - b["stipend"].(int64) - b["m:jklmint"].(int64)
	h := f.c.H
	if f.halted {
		h--
	}
	return M{"prev": prev, "par": M{"tpb": mp.TokensPerBlock, "dec": mp.MintDecrease, "sr": mp.StakerRatio, "dr": mp.DevGrantsRatio, "pr": mp.StorageProviderRatio},
		"bal": b, "supply": supply, "height": h, "halted": f.halted}
}

func (f *mintFam) Random(rng *rand.Rand) M {
	ratios := func() (int64, int64, int64) {
		for {
			v := []int64{0, 1, 8, 12, 33, 50, 80, 100}
			a, b, c := v[rng.Intn(8)], v[rng.Intn(8)], v[rng.Intn(8)]
			if a+b+c <= 100 {
				return a, b, c
			}
		}
	}
	par := func() M {
		sr, dr, pr := ratios()
		return M{"tpb": int64([]int{0, 1, 2, 5, 12, 1000, 4200000}[rng.Intn(7)]),
			"dec": int64([]int{0, 1, 6, 5255999, 5256000, 5256001, 10512001, 52560000}[rng.Intn(8)]), "sr": sr, "dr": dr, "pr": pr}
	}
	if f.c.H <= 1 && rng.Intn(2) == 0 { // fresh chain: usually start from a random parameter set
		return M{"a": "genesis", "p": par()}
	}
	if rng.Intn(8) == 0 && f.c.Open {
		p := par()
		cur := f.c.App.MintKeeper.GetParams(f.c.Ctx)
		p["tpb"] = cur.TokensPerBlock
		return M{"a": "setparams", "p": p, "st": int64(1 + rng.Intn(2))}
	}
	return M{"a": "block"}
}

package main

import (
	"encoding/hex"
	"fmt"
	"math/big"
	"math/rand"
	"time"

	sdk "github.com/cosmos/cosmos-sdk/types"

	"github.com/jackalLabs/canine-chain/v4/app"
	rtypes "github.com/jackalLabs/canine-chain/v4/x/rns/types"
	"github.com/jackalLabs/canine-chain/v4/x/storage"
	stypes "github.com/jackalLabs/canine-chain/v4/x/storage/types"

	"vh/chain"
)

const spUnit = 1_000_000 // bytes per size unit
const spSlots = 16

// spFam: storage payments (plans, purchases, gauges, space accounting).
type spFam struct {
	c       *chain.Chain
	base    sdk.Context
	h0      int64 // height every scenario starts at (0 = the base state's own height)
	ctx     sdk.Context
	t0      time.Time
	payers  []string
	others  []string
	rng     *rand.Rand
	trees   map[string]*tfile
	roots   map[string]string
	slots   map[string]string // gauge account address -> slot label (per scenario)
	lastBuy M
	cw, iw  int64
	fine    bool                // block times with sub-hour (down to millisecond) offsets
	gdep    map[string]*big.Int // harness-side ledger: total deposited per gauge account (per scenario)
	grel    map[string]*big.Int // total released per gauge account
}

func init() { families["sp"] = func() Family { return &spFam{} } }

func (f *spFam) Reseed(r *rand.Rand) { f.rng = r }

func (f *spFam) Setup(cfg M, rng *rand.Rand) {
	f.rng = rng
	f.h0 = geti0(cfg, "h0", 0)
	f.payers = strs(getl(cfg, "payers"), []string{"a", "b"})
	f.others = strs(getl(cfg, "others"), []string{"r", "p1"})
	f.cw, f.iw = geti0(cfg, "C", 2), geti0(cfg, "I", 2)
	f.fine = getb(cfg, "fine")
	price := geti0(cfg, "price", 1)
	ref, pol := geti0(cfg, "ref", 25), geti0(cfg, "pol", 40)
	f.trees, f.roots = map[string]*tfile{}, map[string]string{}
	f.c = chain.New(func(gs app.GenesisState, a *app.JackalApp) {
		var sg stypes.GenesisState
		a.AppCodec().MustUnmarshalJSON(gs["storage"], &sg)
		sg.Params.ProofWindow = f.iw
		sg.Params.CheckWindow = f.cw
		sg.Params.ChunkSize = 1_000_000_000_000
		sg.Params.PricePerTbPerMonth = price
		sg.Params.ReferralCommission = ref
		sg.Params.PolRatio = pol
		gs["storage"] = a.AppCodec().MustMarshalJSON(&sg)
	})
	for _, l := range f.payers {
		f.c.Fund(f.c.Ctx, f.c.Acct(l).Addr, sdk.NewCoins(sdk.NewInt64Coin("ujkl", geti0(cfg, "fund", 1_000_000))))
		// other denominations in the payers' wallets (never accepted for storage)
		f.c.Fund(f.c.Ctx, f.c.Acct(l).Addr, sdk.Coins{sdk.NewInt64Coin("UJKL", 1_000_000_000), sdk.NewInt64Coin("Ujkl", 1_000_000_000), sdk.NewInt64Coin("uusd", 1_000_000_000)})
	}
	for _, l := range append(append([]string{}, f.payers...), f.others...) {
		a := f.c.Acct(l)
		f.c.App.RnsKeeper.SetNames(f.c.Ctx, rtypes.Names{Name: "ref" + l, Tld: "jkl", Value: a.S(), Expires: 2_000_000_000, Data: "{}"})
	}
	for _, m := range []string{"m1", "m2", "m3"} {
		h := []byte("vh-sp-data-" + m)
		t := mkfile(m, h, 1_000_000)
		f.trees[m] = t
		f.roots[hex.EncodeToString(t.root)] = m
	}
	f.base = f.c.Ctx
	f.t0 = f.c.Ctx.BlockTime()
}

func (f *spFam) Reset() M {
	f.ctx, _ = f.base.CacheContext()
	if f.h0 > 0 {
		f.ctx = f.ctx.WithBlockHeight(f.h0)
	}
	f.slots = map[string]string{}
	f.lastBuy = nil
	f.gdep, f.grel = map[string]*big.Int{}, map[string]*big.Int{}
	return f.Project()
}

func (f *spFam) tick(t time.Time) int64 {
	d := t.Sub(f.t0)
	if d%time.Hour != 0 && !f.fine {
		// the driver only produces whole hours; a time that is not comes from mis-computed durations in the code:
		// projected as a negative tick no model state contains (formulas and strict action then disagree)
		return -1 - int64(d/time.Hour)
	}
	return int64(d / time.Hour)
}

func (f *spFam) rootLabel(root []byte) string {
	if l, ok := f.roots[hex.EncodeToString(root)]; ok {
		return l
	}
	return "?" + hex.EncodeToString(root)
}

// units converts a byte count of the real state into size units. Every size the driver sends is a whole number of units,
// so a count that is not (only code that mis-computes footprints produces one) is projected as -1 - b/unit: a negative
// number that no model state contains, which the accounting formulas (C07_Used) then reject.
func units(b int64) int64 {
	if b%spUnit != 0 {
		return -1 - b/spUnit
	}
	return b / spUnit
}

// slotOf returns (assigning if needed) the slot label of a gauge escrow account.
func (f *spFam) slotOf(addr string) string {
	if s, ok := f.slots[addr]; ok {
		return s
	}
	if len(f.slots) >= spSlots {
		die(2, "sp: more than %d gauges in one scenario", spSlots)
	}
	s := fmt.Sprintf("g%d", len(f.slots)+1)
	f.slots[addr] = s
	return s
}

func (f *spFam) gaugeState() (map[string]int64, map[string]string) {
	bals, ids := map[string]int64{}, map[string]string{}
	for _, g := range f.c.App.StorageKeeper.GetAllPaymentGauges(f.ctx) {
		a, err := stypes.GetGaugeAccount(g)
		if err != nil {
			continue
		}
		bals[a.String()] = f.c.App.BankKeeper.GetBalance(f.ctx, a, "ujkl").Amount.Int64()
		ids[hex.EncodeToString(g.Id)] = a.String()
	}
	return bals, ids
}

// newGaugeSlot finds the gauge account this step paid into.
func (f *spFam) newGaugeSlot(bBefore map[string]int64, idBefore map[string]string, end time.Time) string {
	bAfter, idAfter := f.gaugeState()
	for id, a := range idAfter {
		if _, was := idBefore[id]; !was {
			return f.slotOf(a)
		}
	}
	for a, v := range bAfter {
		if v > bBefore[a] {
			return f.slotOf(a)
		}
	}
	// nothing visibly new (an empty gauge landing on an existing id): the record opened in this block with this end
	for _, g := range f.c.App.StorageKeeper.GetAllPaymentGauges(f.ctx) {
		if g.Start.Equal(f.ctx.BlockTime()) && g.End.Equal(end) {
			if a, err := stypes.GetGaugeAccount(g); err == nil {
				return f.slotOf(a.String())
			}
		}
	}
	return "none"
}

// gaugeBalances returns the ujkl balance of every gauge account seen so far in this scenario.
func (f *spFam) gaugeBalances() map[string]int64 {
	out := map[string]int64{}
	for a := range f.slots {
		addr, err := sdk.AccAddressFromBech32(a)
		if err == nil {
			out[a] = f.c.App.BankKeeper.GetBalance(f.ctx, addr, "ujkl").Amount.Int64()
		}
	}
	return out
}

// ledger records deposits into / releases from gauge accounts between two balance snapshots.
func (f *spFam) ledger(before, after map[string]int64) {
	for a, v := range after {
		d := v - before[a]
		if _, ok := f.gdep[a]; !ok {
			f.gdep[a], f.grel[a] = big.NewInt(0), big.NewInt(0)
		}
		if d > 0 {
			f.gdep[a].Add(f.gdep[a], big.NewInt(d))
		} else if d < 0 {
			f.grel[a].Add(f.grel[a], big.NewInt(-d))
		}
	}
}

// expected computes, with exact integer arithmetic in microseconds, the cumulative amount every gauge of the
// pre-state should have released at time t: floor(deposited * (t-start)/(end-start)) inside [start, end];
// gauges outside their interval are absent from the result (nothing may leave them).
func (f *spFam) expected(t time.Time) M {
	out := M{}
	for _, g := range f.c.App.StorageKeeper.GetAllPaymentGauges(f.ctx) {
		a, err := stypes.GetGaugeAccount(g)
		if err != nil {
			continue
		}
		slot, ok := f.slots[a.String()]
		if !ok || t.After(g.End) || t.Before(g.Start) || !g.End.After(g.Start) {
			continue
		}
		dep := f.gdep[a.String()]
		if dep == nil {
			dep = big.NewInt(0)
		}
		num := new(big.Int).Mul(dep, big.NewInt(t.Sub(g.Start).Microseconds()))
		e := new(big.Int).Div(num, big.NewInt(g.End.Sub(g.Start).Microseconds()))
		out[slot] = e.Int64()
	}
	return out
}

func (f *spFam) Apply(st M) M {
	gb0 := f.gaugeBalances()
	ev := f.apply(st, gb0)
	f.labelNewSlots()
	f.ledger(gb0, f.gaugeBalances())
	return ev
}

// labelNewSlots makes sure every gauge record's account has a slot (so that the ledger sees it).
func (f *spFam) labelNewSlots() {
	for _, g := range f.c.App.StorageKeeper.GetAllPaymentGauges(f.ctx) {
		if a, err := stypes.GetGaugeAccount(g); err == nil {
			f.slotOf(a.String())
		}
	}
}

func (f *spFam) apply(st M, gb0 map[string]int64) M {
	a := gets(st, "a")
	ev := M{}
	for k, v := range st {
		if k != "ok" && k != "via" {
			ev[k] = v
		}
	}
	x := M{}
	ev["x"] = x
	k := f.c.App.StorageKeeper
	switch a {
	case "buy":
		s := f.c.Acct(gets(st, "s"))
		forA := f.c.Acct(gets(st, "for"))
		un, days := geti(st, "units"), geti(st, "days")
		ref, via := gets(st, "ref"), gets(st, "via")
		referral := ""
		switch {
		case ref == "none" && via == "unknown":
			referral = "nosuchname.jkl"
		case ref == "none":
			referral = ""
		case via == "name":
			referral = "ref" + ref + ".jkl"
		default:
			referral = f.c.Acct(ref).S()
		}
		// the chain's own tariff for this request, from the exported keeper methods, in the same state
		bytes := un * spUnit
		duration := time.Duration(days) * 24 * time.Hour
		quote := int64(-1)
		func() {
			defer func() { recover() }()
			cost := k.GetStorageCost(f.ctx, bytes/1_000_000_000, days*24)
			quote = cost.Int64()
			if pi, found := k.GetStoragePaymentInfo(f.ctx, forA.S()); found && pi.End.After(f.ctx.BlockTime()) {
				tp, err := k.UpgradeStorage(f.ctx, bytes, pi, duration, cost, "ujkl")
				if err != nil {
					quote = -1
				} else {
					quote = tp.Amount.Int64()
				}
			}
		}()
		if quote > 2_000_000_000 { // beyond what the trace can carry (TLC integers are 32-bit): not attempted
			return nil
		}
		// payment denomination: storage is sold in ujkl only. Every seventh request (or as the replayed step says) names another
		// denomination the payer does hold (a case variant, the second denomination): the chain has no price for it (quote -1)
		den, given := st["den"].(string)
		if !given {
			den = "ujkl"
			if (un+days)%7 == 0 {
				den = []string{"UJKL", "uusd", "Ujkl"}[(un/1000+days)%3]
			}
		}
		ev["den"] = den
		if den != "ujkl" {
			quote = -1
		}
		ev["quote"] = quote
		bB, idB := f.gaugeState()
		_, err := f.c.Msg(f.ctx, &stypes.MsgBuyStorage{Creator: s.S(), ForAddress: forA.S(), DurationDays: days, Bytes: bytes, PaymentDenom: den, Referral: referral})
		ev["ok"] = err == nil
		x["gid"] = "none"
		if err == nil {
			x["gid"] = f.newGaugeSlot(bB, idB, f.ctx.BlockTime().Add(duration))
		} else {
			x["err"] = err.Error()
		}
		x["via"] = via
	case "mkgauge":
		// a gauge record with two denominations (a few units of "aaa", which sorts first, next to the ujkl amount), created
		// through the keeper as genesis / an upgrade would, and funded accordingly
		amt, days := geti(st, "amt"), geti(st, "days")
		end := f.ctx.BlockTime().Add(time.Duration(days) * 24 * time.Hour)
		bB, idB := f.gaugeState()
		coins := sdk.NewCoins(sdk.NewInt64Coin("aaa", 3), sdk.NewInt64Coin("ujkl", amt))
		g := k.NewGauge(f.ctx, coins, end)
		if a, err := stypes.GetGaugeAccount(g); err == nil {
			f.c.Fund(f.ctx, a, coins)
		}
		ev["ok"] = true
		x["gid"] = f.newGaugeSlot(bB, idB, end)
	case "postfile":
		s := f.c.Acct(gets(st, "s"))
		m := gets(st, "m")
		t := f.trees[m]
		if t == nil {
			die(2, "sp: unknown merkle label %s", m)
		}
		sz, mp := geti(st, "sz"), geti(st, "mp")
		pay, days := gets(st, "pay"), geti(st, "days")
		msg := &stypes.MsgPostFile{Creator: s.S(), Merkle: t.root, FileSize: sz * spUnit, MaxProofs: mp, Note: "{}"}
		quote := int64(0)
		if pay == "once" {
			h := f.ctx.BlockHeight()
			msg.Expires = h + days*14400 + 5
			if days <= 0 {
				msg.Expires = h + 100
			}
			func() {
				defer func() { recover() }()
				kbs := sz * spUnit * mp / 1000
				if kbs < 1024 {
					kbs = 1024
				}
				hours := (msg.Expires - h) * 6 / 60 / 60
				quote = k.GetStorageCostKbs(f.ctx, kbs, hours).Int64()
			}()
		} else {
			ev["days"] = int64(0)
			// a plan-paid post may carry any non-positive expiry (ValidateBasic does not look at it): every fourth one
			// (or as the replayed step says) is sent with a negative one; it is still a plan-paid file
			nexp, given := st["nexp"].(bool)
			if !given {
				nexp = (sz*7+mp)%4 == 0
			}
			if nexp {
				msg.Expires = -5
			}
			ev["nexp"] = nexp
		}
		ev["quote"] = quote
		bB, idB := f.gaugeState()
		_, err := f.c.Msg(f.ctx, msg)
		ev["ok"] = err == nil
		x["gid"] = "none"
		if err == nil && pay == "once" {
			x["gid"] = f.newGaugeSlot(bB, idB, f.ctx.BlockTime().AddDate(0, 0, int(days)))
		}
		if err != nil {
			x["err"] = err.Error()
		}
	case "deletefile":
		s := f.c.Acct(gets(st, "s"))
		t := f.trees[gets(st, "m")]
		_, err := f.c.Msg(f.ctx, &stypes.MsgDeleteFile{Creator: s.S(), Merkle: t.root, Start: geti(st, "st")})
		ev["ok"] = err == nil
	case "postproof":
		p := f.c.Acct(gets(st, "s"))
		m, o, start := fidOf(st["f"])
		t := f.trees[m]
		item, hl, _ := t.proof(0)
		res, err := f.c.Msg(f.ctx, &stypes.MsgPostProof{Creator: p.S(), Item: item, HashList: hl, Merkle: t.root, Owner: f.c.Acct(o).S(), Start: start, ToProve: 0})
		ok := false
		if err == nil && res != nil {
			var r stypes.MsgPostProofResponse
			if r.Unmarshal(res.Data) == nil {
				ok = r.Success
			}
		}
		x["success"] = ok
		ev["ok"] = true
	case "setratios":
		pr := k.GetParams(f.ctx)
		pr.ReferralCommission, pr.PolRatio = geti(st, "ref"), geti(st, "pol")
		k.SetParams(f.ctx, pr)
		ev["ok"] = true
	case "block":
		dt := geti(st, "dt")
		step := time.Duration(dt) * time.Hour
		if f.fine {
			if _, has := st["dtms"]; has {
				step = time.Duration(geti(st, "dtms")) * time.Millisecond
			} else { // a model-generated step: keep its hours, add a sub-second offset
				step += 500 * time.Millisecond
			}
			x["dtms"] = fmt.Sprint(int64(step / time.Millisecond))
		}
		h := f.ctx.BlockHeight() + 1
		x["exp"] = f.expected(f.ctx.BlockTime().Add(step))
		// a panic in BeginBlock halts the node: nothing of that block is committed
		cctx, write := f.ctx.CacheContext()
		nctx := cctx.WithBlockHeight(h).WithBlockTime(f.ctx.BlockTime().Add(step))
		var pan interface{}
		func() {
			defer func() { pan = recover() }()
			storage.BeginBlocker(nctx, k)
		}()
		if pan == nil {
			write()
			f.ctx = f.ctx.WithBlockHeight(h).WithBlockTime(f.ctx.BlockTime().Add(step))
		}
		ev = M{"a": "block", "dt": dt, "reward": h%k.GetParams(f.ctx).CheckWindow == 0, "ok": pan == nil, "x": x}
		if pan != nil {
			x["panic"] = fmt.Sprint(pan)
		}
	default:
		die(2, "sp: unknown action %q", a)
	}
	return ev
}

func (f *spFam) Project() M {
	k := f.c.App.StorageKeeper
	plans := M{}
	for _, p := range k.GetAllStoragePaymentInfo(f.ctx) {
		plans[f.c.LabelOf(p.Address)] = M{"start": f.tick(p.Start), "end": f.tick(p.End), "avail": units(p.SpaceAvailable), "used": units(p.SpaceUsed)}
	}
	files := []interface{}{}
	for _, uf := range k.GetAllFileByMerkle(f.ctx) {
		files = append(files, M{"id": []interface{}{f.rootLabel(uf.Merkle), f.c.LabelOf(uf.Owner), uf.Start}, "owner": f.c.LabelOf(uf.Owner),
			"size": units(uf.FileSize), "maxp": uf.MaxProofs, "plan": uf.Expires <= 0, "start": uf.Start, "interval": uf.ProofInterval})
	}
	sortRecs(files)
	gauges := M{}
	for _, g := range k.GetAllPaymentGauges(f.ctx) {
		a, err := stypes.GetGaugeAccount(g)
		if err != nil {
			continue
		}
		gauges[f.slotOf(a.String())] = M{"start": f.tick(g.Start), "end": f.tick(g.End), "amt": g.Coins.AmountOf("ujkl").Int64()}
	}
	for a, s := range f.slots {
		f.c.SetLabel(a, "slot:"+s)
	}
	keep := map[string]bool{"m:storage": true, "pol": true, "m:fee_collector": true}
	for _, l := range f.payers {
		keep[l] = true
	}
	for _, l := range f.others {
		keep[l] = true
	}
	bal := M{}
	for i := 1; i <= spSlots; i++ {
		bal[fmt.Sprintf("g%d", i)] = int64(0)
	}
	var other int64
	for l, m := range f.c.Balances(f.ctx, []string{"ujkl"}) {
		switch {
		case keep[l]:
			bal[l] = m["ujkl"]
		case len(l) > 5 && l[:5] == "slot:":
			if _, cur := bal[l[5:]]; cur {
				bal[l[5:]] = bal[l[5:]].(int64) + m["ujkl"]
			}
		default:
			other += m["ujkl"]
		}
	}
	bal["other"] = other
	pr := k.GetParams(f.ctx)
	return M{"plans": plans, "files": files, "gauges": gauges, "bal": bal, "now": f.tick(f.ctx.BlockTime()), "height": f.ctx.BlockHeight(),
		"par": M{"ref": pr.ReferralCommission, "pol": pr.PolRatio, "C": pr.CheckWindow, "I": pr.ProofWindow}, "fine": f.fine}
}

func (f *spFam) Random(rng *rand.Rand) M {
	payer := func() string { return f.payers[rng.Intn(len(f.payers))] }
	k := f.c.App.StorageKeeper
	files := k.GetAllFileByMerkle(f.ctx)
	r := rng.Intn(100)
	full := len(f.slots) >= spSlots-4
	switch {
	case r < 24 && !full:
		if f.lastBuy != nil && rng.Intn(4) == 0 { // an equal purchase in the same block (other payer or same)
			st := M{}
			for kk, v := range f.lastBuy {
				st[kk] = v
			}
			if rng.Intn(2) == 0 {
				st["s"] = payer()
				st["for"] = st["s"]
			}
			return st
		}
		s := payer()
		forA := s
		if rng.Intn(4) == 0 {
			forA = payer()
		}
		refs := []string{"none", "none", s, "r", "r", f.payers[0], f.payers[len(f.payers)-1]}
		vias := []string{"addr", "name", "unknown"}
		unitChoices := []int{1000, 2000, 3000, 5000, 900, 4000}
		if f.fine { // no amount*ticks products are formed by TLC in fine mode: large deposits make sub-second slips visible
			unitChoices = []int{20_000_000, 5_000_000, 20_000_000, 8_000_000, 1000, 70000}
		}
		st := M{"a": "buy", "s": s, "for": forA, "units": int64(unitChoices[rng.Intn(6)]),
			"days": int64([]int{30, 30, 45, 60, 365, 366, 400, 29}[rng.Intn(8)]), "ref": refs[rng.Intn(len(refs))], "via": vias[rng.Intn(3)]}
		if f.fine && rng.Intn(3) != 0 {
			st["days"] = int64(30)
		}
		// a renewal sized just under / just over the space still in use (whole-GB bucket of the usage, and the next one)
		if pi, found := k.GetStoragePaymentInfo(f.ctx, f.c.Acct(forA).S()); found && pi.SpaceUsed > 0 && !f.fine && rng.Intn(2) == 0 {
			gbs := pi.SpaceUsed / 1_000_000_000
			if gbs >= 1 {
				st["units"] = (gbs + int64(rng.Intn(2))) * 1000
			}
		}
		if st["ref"] == "none" && st["via"] == "name" {
			st["via"] = "addr"
		}
		if st["ref"] != "none" && st["via"] == "unknown" {
			st["via"] = "name"
		}
		f.lastBuy = st
		return st
	case r < 50:
		s := payer()
		m := []string{"m1", "m2", "m3"}[rng.Intn(3)]
		sz := int64([]int{100, 250, 400, 700, 900, 1500, 0, -300}[rng.Intn(8)])
		mp := int64([]int{1, 1, 2, 3, 0, -1}[rng.Intn(6)])
		if rng.Intn(3) != 0 && (sz <= 0 || mp <= 0) {
			sz, mp = 300, 2
		}
		if len(files) > 0 && rng.Intn(5) == 0 { // re-post the key of a file posted in this block
			uf := files[rng.Intn(len(files))]
			if uf.Start == f.ctx.BlockHeight() {
				s, m = f.c.LabelOf(uf.Owner), f.rootLabel(uf.Merkle)
			}
		}
		if rng.Intn(3) == 0 && !full {
			return M{"a": "postfile", "s": s, "m": m, "sz": sz, "mp": mp, "pay": "once", "days": int64([]int{1, 2, 3, 0}[rng.Intn(4)])}
		}
		return M{"a": "postfile", "s": s, "m": m, "sz": sz, "mp": mp, "pay": "plan", "days": int64(0)}
	case r < 58:
		if len(files) > 0 {
			uf := files[rng.Intn(len(files))]
			o := f.c.LabelOf(uf.Owner)
			if rng.Intn(5) == 0 {
				o = payer()
			}
			return M{"a": "deletefile", "s": o, "m": f.rootLabel(uf.Merkle), "st": uf.Start}
		}
	case r < 68:
		if len(files) > 0 {
			uf := files[rng.Intn(len(files))]
			return M{"a": "postproof", "s": "p1", "f": []interface{}{f.rootLabel(uf.Merkle), f.c.LabelOf(uf.Owner), uf.Start}}
		}
	case r < 70 && !full:
		days := int64([]int{2, 10, 30}[rng.Intn(3)])
		if rng.Intn(2) == 0 { // end exactly when a live gauge opened earlier ends (same end, different start)
			for _, g := range k.GetAllPaymentGauges(f.ctx) {
				rem := g.End.Sub(f.ctx.BlockTime())
				if rem > 0 && rem%(24*time.Hour) == 0 && g.Start.Before(f.ctx.BlockTime()) {
					days = int64(rem / (24 * time.Hour))
					break
				}
			}
		}
		return M{"a": "mkgauge", "amt": int64([]int{1000, 50000, 240000}[rng.Intn(3)]), "days": days}
	case r < 72:
		rp := [][2]int64{{25, 40}, {0, 10}, {5, 10}, {10, 60}, {40, 60}, {90, 10}, {0, 0}, {25, 5}}[rng.Intn(8)]
		return M{"a": "setratios", "ref": rp[0], "pol": rp[1]}
	}
	if f.fine {
		ms := []int64{0, 1, 500, 999, 18500, 60_001, 3_599_999, 3_600_000, 86_400_000 + 777, 7 * 86_400_000, 30*86_400_000 - 1, 31 * 86_400_000}[rng.Intn(12)]
		return M{"a": "block", "dt": int64(0), "dtms": ms}
	}
	return M{"a": "block", "dt": int64([]int{0, 1, 2, 7, 24, 40, 240, 720, 2000}[rng.Intn(9)])}
}

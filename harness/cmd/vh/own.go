package main

import (
	"math/rand"
	"strconv"

	sdk "github.com/cosmos/cosmos-sdk/types"

	"github.com/jackalLabs/canine-chain/v4/wasmbinding"
	ntypes "github.com/jackalLabs/canine-chain/v4/x/notifications/types"
	otypes "github.com/jackalLabs/canine-chain/v4/x/oracle/types"
	rtypes "github.com/jackalLabs/canine-chain/v4/x/rns/types"
	stypes "github.com/jackalLabs/canine-chain/v4/x/storage/types"

	"vh/chain"
)

// ownFam: owner-only messages of the custom modules, also sent by accounts that do not own the resource.
type ownFam struct {
	c     *chain.Chain
	base  sdk.Context
	ctx   sdk.Context
	accts []string
	trees map[string]*tfile
	roots map[string]string
	rng   *rand.Rand
}

func init() { families["own"] = func() Family { return &ownFam{} } }

func (f *ownFam) Reseed(r *rand.Rand) { f.rng = r }

func (f *ownFam) Setup(cfg M, rng *rand.Rand) {
	f.rng = rng
	f.accts = strs(getl(cfg, "accts"), []string{"a", "b", "c"})
	f.c = chain.New(smallParams)
	f.trees, f.roots = map[string]*tfile{}, map[string]string{}
	for _, l := range f.accts {
		f.c.Fund(f.c.Ctx, f.c.Acct(l).Addr, sdk.NewCoins(sdk.NewInt64Coin("ujkl", 1_500_000_000)))
		_, err := f.c.Msg(f.c.Ctx, &stypes.MsgBuyStorage{Creator: f.c.Acct(l).S(), ForAddress: f.c.Acct(l).S(), DurationDays: 60, Bytes: 5_000_000_000, PaymentDenom: "ujkl"})
		if err != nil {
			die(2, "own: buy storage: %v", err)
		}
	}
	// registered names held by a and b (a holds two, one of them primary): a MakePrimary by anybody else must not touch them
	for _, r := range []struct {
		who, name string
		prim      bool
	}{{"a", "alpha.jkl", true}, {"a", "spare.jkl", false}, {"b", "beta.jkl", false}} {
		if _, err := f.c.Msg(f.c.Ctx, &rtypes.MsgRegisterName{Creator: f.c.Acct(r.who).S(), Name: r.name, Years: 1, Data: "{}", SetPrimary: r.prim}); err != nil {
			die(2, "own: register %s: %v", r.name, err)
		}
	}
	for _, m := range []string{"m1", "m2"} {
		t := mkfile(m, []byte("own-data-"+m), 1024)
		f.trees[m] = t
		f.roots[string(t.root)] = m
	}
	f.base = f.c.Ctx
}

func (f *ownFam) Reset() M {
	f.ctx, _ = f.base.CacheContext()
	return f.Project()
}

func (f *ownFam) Apply(st M) M {
	a := gets(st, "a")
	ev := M{}
	for k, v := range st {
		if k != "ok" {
			ev[k] = v
		}
	}
	x := M{}
	ev["x"] = x
	if a == "tick" {
		f.ctx = f.ctx.WithBlockHeight(f.ctx.BlockHeight() + 1)
		return M{"a": "tick", "s": "none", "ok": true}
	}
	s := f.c.Acct(gets(st, "s"))
	var msg sdk.Msg
	switch a {
	case "initprovider":
		msg = &stypes.MsgInitProvider{Creator: s.S(), Ip: gets(st, "v"), Keybase: "kb", TotalSpace: 1000}
	case "shutdown":
		msg = &stypes.MsgShutdownProvider{Creator: s.S()}
	case "setip":
		msg = &stypes.MsgSetProviderIP{Creator: s.S(), Ip: gets(st, "v")}
	case "setkeybase":
		msg = &stypes.MsgSetProviderKeybase{Creator: s.S(), Keybase: gets(st, "v")}
	case "setspace":
		msg = &stypes.MsgSetProviderTotalSpace{Creator: s.S(), Space: geti(st, "v")}
	case "addclaimer":
		msg = &stypes.MsgAddClaimer{Creator: s.S(), ClaimAddress: f.c.Acct(gets(st, "c")).S()}
	case "rmclaimer":
		msg = &stypes.MsgRemoveClaimer{Creator: s.S(), ClaimAddress: f.c.Acct(gets(st, "c")).S()}
	case "createfeed":
		msg = &otypes.MsgCreateFeed{Creator: s.S(), Name: gets(st, "n")}
	case "updatefeed":
		msg = &otypes.MsgUpdateFeed{Creator: s.S(), Name: gets(st, "n"), Data: gets(st, "d")}
	case "makeprimary":
		msg = &rtypes.MsgMakePrimary{Creator: s.S(), Name: gets(st, "n")}
	case "blocksender":
		msg = &ntypes.MsgBlockSenders{Creator: s.S(), ToBlock: []string{f.c.Acct(gets(st, "b")).S()}}
	case "notify":
		msg = &ntypes.MsgCreateNotification{Creator: s.S(), To: f.c.Acct(gets(st, "to")).S(), Contents: `{"c":"x"}`}
	case "delnotif":
		msg = &ntypes.MsgDeleteNotification{Creator: s.S(), From: f.c.Acct(gets(st, "from")).S(), Time: f.ctx.BlockTime().UnixMicro()}
	case "postfile":
		msg = &stypes.MsgPostFile{Creator: s.S(), Merkle: f.trees[gets(st, "m")].root, FileSize: 10, MaxProofs: 3, Note: "{}"}
	case "deletefile":
		msg = &stypes.MsgDeleteFile{Creator: s.S(), Merkle: f.trees[gets(st, "m")].root, Start: geti(st, "st")}
	case "contractpost":
		// the wasm custom-message entry point: the contract address is s, the message names `creator`
		pf := &stypes.MsgPostFile{Creator: f.c.Acct(gets(st, "creator")).S(), Merkle: f.trees[gets(st, "m")].root, FileSize: 10, MaxProofs: 3, Note: "{}"}
		if getb(st, "once") { // paid one by one instead of from a plan: the named creator would be the payer
			pf.Expires = f.ctx.BlockHeight() + 3*14400
		}
		cctx, write := f.ctx.CacheContext()
		var err error
		func() {
			defer func() {
				if r := recover(); r != nil {
					err = sdk.ErrInvalidDecimalStr
				}
			}()
			k := f.c.App.StorageKeeper
			err = wasmbinding.PerformPostFile(&k, cctx, s.Addr, pf)
		}()
		if err == nil {
			write()
		} else {
			x["err"] = err.Error()
		}
		ev["ok"] = err == nil
		return ev
	default:
		die(2, "own: unknown action %q", a)
	}
	_, err := f.c.Msg(f.ctx, msg)
	if err != nil && len(err.Error()) > 14 && err.Error()[:14] == "validatebasic:" {
		return nil
	}
	ev["ok"] = err == nil
	if err != nil {
		x["err"] = err.Error()
	}
	return ev
}

func (f *ownFam) Project() M {
	sk := f.c.App.StorageKeeper
	providers := M{}
	for _, p := range sk.GetAllProviders(f.ctx) {
		cl := []interface{}{}
		for _, c := range p.AuthClaimers {
			cl = append(cl, f.c.LabelOf(c))
		}
		sp, err := strconv.ParseInt(p.Totalspace, 10, 64)
		if err != nil {
			sp = -1
		}
		providers[f.c.LabelOf(p.Address)] = M{"ip": p.Ip, "keybase": p.KeybaseIdentity, "space": sp, "claimers": cl}
	}
	feeds := M{}
	for _, fd := range f.c.App.OracleKeeper.GetAllFeeds(f.ctx) {
		feeds[fd.Name] = M{"owner": f.c.LabelOf(fd.Owner), "data": fd.Data}
	}
	primary := M{}
	blocks := []interface{}{}
	for _, l := range f.accts {
		st := f.ctx.KVStore(f.c.Key(rtypes.StoreKey))
		if b := st.Get(append(rtypes.KeyPrefix(rtypes.PrimaryNameKeyPrefix), rtypes.PrimaryNameKey(f.c.Acct(l).S())...)); b != nil {
			primary[l] = string(b)
		}
		for _, o := range f.accts {
			if f.c.App.NotificationsKeeper.IsBlocked(f.ctx, f.c.Acct(l).S(), f.c.Acct(o).S()) {
				blocks = append(blocks, []interface{}{l, o})
			}
		}
	}
	// inboxes read from the raw store records (not through the listing query): (recipient, sender) of every real notification
	inbox := []interface{}{}
	for _, n := range f.c.App.NotificationsKeeper.GetAllNotifications(f.ctx) {
		if n.Time != 0 && f.c.Known(n.To) && f.c.Known(n.From) { // block markers share the store and decode as Time == 0
			inbox = append(inbox, []interface{}{f.c.LabelOf(n.To), f.c.LabelOf(n.From)})
		}
	}
	sortRecs(inbox)
	files := []interface{}{}
	for _, uf := range sk.GetAllFileByMerkle(f.ctx) {
		m, ok := f.roots[string(uf.Merkle)]
		if !ok {
			m = "?"
		}
		files = append(files, []interface{}{m, f.c.LabelOf(uf.Owner), uf.Start})
	}
	sortRecs(files)
	return M{"providers": providers, "feeds": feeds, "primary": primary, "blocks": blocks, "files": files, "inbox": inbox, "height": f.ctx.BlockHeight()}
}

func (f *ownFam) Random(rng *rand.Rand) M {
	acc := func() string { return f.accts[rng.Intn(len(f.accts))] }
	val := func() string { return []string{"https://a.d1.com", "https://b.d2.com", "kbX"}[rng.Intn(3)] }
	files := f.c.App.StorageKeeper.GetAllFileByMerkle(f.ctx)
	switch r := rng.Intn(100); {
	case r < 4:
		return M{"a": "notify", "s": acc(), "to": acc()}
	case r < 12:
		return M{"a": "initprovider", "s": acc(), "v": []string{"https://a.d1.com", "https://b.d2.com"}[rng.Intn(2)]}
	case r < 16:
		return M{"a": "shutdown", "s": acc()}
	case r < 24:
		return M{"a": "setip", "s": acc(), "v": []string{"https://a.d1.com", "https://b.d2.com"}[rng.Intn(2)]}
	case r < 30:
		return M{"a": "setkeybase", "s": acc(), "v": val()}
	case r < 36:
		return M{"a": "setspace", "s": acc(), "v": int64(rng.Intn(5000))}
	case r < 44:
		return M{"a": "addclaimer", "s": acc(), "c": acc()}
	case r < 50:
		return M{"a": "rmclaimer", "s": acc(), "c": acc()}
	case r < 56:
		return M{"a": "createfeed", "s": acc(), "n": []string{"f1", "f2"}[rng.Intn(2)]}
	case r < 66:
		return M{"a": "updatefeed", "s": acc(), "n": []string{"f1", "f2"}[rng.Intn(2)], "d": val()}
	case r < 72:
		return M{"a": "makeprimary", "s": acc(), "n": []string{"alpha.jkl", "beta.jkl", "spare.jkl", "nobody.jkl"}[rng.Intn(4)]}
	case r < 75:
		return M{"a": "blocksender", "s": acc(), "b": acc()}
	case r < 77:
		return M{"a": "delnotif", "s": acc(), "from": acc()}
	case r < 78:
		return M{"a": "notify", "s": acc(), "to": acc()}
	case r < 84:
		return M{"a": "postfile", "s": acc(), "m": []string{"m1", "m2"}[rng.Intn(2)]}
	case r < 92:
		if len(files) > 0 { // mostly: somebody (owner or not) replays a delete for an existing file's (merkle, start)
			uf := files[rng.Intn(len(files))]
			st := uf.Start
			if rng.Intn(4) == 0 { // a start that names no file (0, or one off): must delete nothing, whoever sends it
				st = []int64{0, 0, uf.Start + 1, uf.Start - 1}[rng.Intn(4)]
			}
			return M{"a": "deletefile", "s": acc(), "m": f.roots[string(uf.Merkle)], "st": st}
		}
		return M{"a": "deletefile", "s": acc(), "m": "m1", "st": f.ctx.BlockHeight()}
	case r < 97:
		c := acc()
		cr := c
		if rng.Intn(2) == 0 {
			cr = acc()
		}
		return M{"a": "contractpost", "s": c, "creator": cr, "m": []string{"m1", "m2"}[rng.Intn(2)], "once": rng.Intn(2) == 0}
	}
	return M{"a": "tick"}
}

package main

import (
	"fmt"
	"go/ast"
	"go/parser"
	"go/token"
	"math/rand"
	"os"
	"path/filepath"
	"sort"
	"strings"
)

// srcFam checks the assumption under which double execution (C06) is meaningful: the state machine reads time only
// from the block header and randomness only from generators it seeds from chain data. A handler that reads the wall
// clock (time.Now / Since / Until) or the process-global / OS random source diverges between nodes only when their
// clocks straddle a boundary, which two runs started a second apart almost never do. So the module sources are
// scanned (AST, not text): one trace line per file with the offending references; the trace specification requires
// the list to be empty. References inside arguments of telemetry.* calls are measurements, not state, and are allowed.
type srcFam struct {
	repo  string
	files []string
	next  int
}

func init() { families["src"] = func() Family { return &srcFam{} } }

func (f *srcFam) Setup(cfg M, rng *rand.Rand) {
	f.repo = gets(cfg, "repo")
	if f.repo == "" {
		f.repo = "/repo"
	}
	for _, root := range []string{"x", "wasmbinding", "types", "app"} {
		filepath.Walk(filepath.Join(f.repo, root), func(p string, info os.FileInfo, err error) error {
			if err != nil {
				return nil
			}
			rel, _ := filepath.Rel(f.repo, p)
			if info.IsDir() {
				switch info.Name() {
				case "client", "simulation", "testutil", "testutils", "params", "upgrades":
					return filepath.SkipDir
				}
				return nil
			}
			if strings.HasSuffix(p, ".go") && !strings.HasSuffix(p, "_test.go") && !strings.HasSuffix(p, ".pb.go") && !strings.HasSuffix(p, ".pb.gw.go") &&
				!strings.HasPrefix(filepath.Base(p), "sim_") && !strings.HasPrefix(filepath.Base(p), "test_") && filepath.Base(p) != "export.go" {
				f.files = append(f.files, rel)
			}
			return nil
		})
	}
	sort.Strings(f.files)
	if len(f.files) == 0 {
		die(2, "src: no source files under %s", f.repo)
	}
}

func (f *srcFam) Reset() M   { f.next = 0; return M{} }
func (f *srcFam) Project() M { return M{} }
func (f *srcFam) Random(rng *rand.Rand) M {
	if f.next >= len(f.files) {
		return M{"a": "skip"}
	}
	return M{"a": "src", "file": f.files[f.next]}
}

var wallClock = map[string]bool{"Now": true, "Since": true, "Until": true, "After": true, "Tick": true, "NewTimer": true, "NewTicker": true, "Sleep": true, "AfterFunc": true}
var randOK = map[string]bool{"New": true, "NewSource": true, "NewZipf": true, "Rand": true, "Source": true}

func (f *srcFam) Apply(st M) M {
	if gets(st, "a") != "src" {
		return nil
	}
	rel := gets(st, "file")
	if f.next < len(f.files) && f.files[f.next] == rel {
		f.next++
	}
	fset := token.NewFileSet()
	af, err := parser.ParseFile(fset, filepath.Join(f.repo, rel), nil, 0)
	if err != nil {
		return M{"a": "src", "file": rel, "bad": []interface{}{"!parse-error"}, "ok": false}
	}
	// local names of the imported packages
	names := map[string]string{}
	for _, im := range af.Imports {
		path := strings.Trim(im.Path.Value, "\"")
		base := path[strings.LastIndex(path, "/")+1:]
		if im.Name != nil {
			base = im.Name.Name
		}
		names[base] = path
	}
	bad := []interface{}{}
	var stack []ast.Node
	ast.Inspect(af, func(n ast.Node) bool {
		if n == nil {
			stack = stack[:len(stack)-1]
			return true
		}
		stack = append(stack, n)
		sel, ok := n.(*ast.SelectorExpr)
		if !ok {
			return true
		}
		id, ok := sel.X.(*ast.Ident)
		if !ok || id.Obj != nil { // a local variable shadows the package name
			return true
		}
		flagged := ""
		switch names[id.Name] {
		case "time":
			if wallClock[sel.Sel.Name] {
				flagged = "time." + sel.Sel.Name
			}
		case "math/rand":
			if !randOK[sel.Sel.Name] {
				flagged = "math/rand." + sel.Sel.Name
			}
		case "crypto/rand":
			flagged = "crypto/rand." + sel.Sel.Name
		}
		if flagged == "" {
			return true
		}
		for _, a := range stack { // measurements handed to telemetry are not state
			if call, ok := a.(*ast.CallExpr); ok {
				if fs, ok := call.Fun.(*ast.SelectorExpr); ok {
					if pk, ok := fs.X.(*ast.Ident); ok && names[pk.Name] == "github.com/cosmos/cosmos-sdk/telemetry" {
						return true
					}
				}
			}
		}
		bad = append(bad, fmt.Sprintf("%s@%d", flagged, fset.Position(sel.Pos()).Line))
		return true
	})
	return M{"a": "src", "file": rel, "bad": bad, "ok": len(bad) == 0}
}

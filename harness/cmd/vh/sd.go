package main

import (
	"bytes"
	"crypto/sha256"
	"encoding/hex"
	"encoding/json"
	"fmt"
	"math/rand"
	"net/url"
	"sort"
	"strconv"
	"strings"
	"time"

	sdk "github.com/cosmos/cosmos-sdk/types"
	"github.com/wealdtech/go-merkletree/v2"

	"github.com/jackalLabs/canine-chain/v4/app"
	"github.com/jackalLabs/canine-chain/v4/x/storage"
	stypes "github.com/jackalLabs/canine-chain/v4/x/storage/types"
	sutils "github.com/jackalLabs/canine-chain/v4/x/storage/utils"

	"vh/chain"
)

// tfile is a client-side file: data, Merkle tree built with the repository's own BuildTree.
type tfile struct {
	label  string
	data   []byte
	root   []byte
	tree   *merkletree.MerkleTree
	chunks [][]byte
}

func mkfile(label string, data []byte, chunk int64) *tfile {
	root, exp, chunks, _, err := sutils.BuildTree(bytes.NewReader(data), chunk)
	if err != nil {
		die(2, "BuildTree: %v", err)
	}
	var tr merkletree.MerkleTree
	if err := json.Unmarshal(exp, &tr); err != nil {
		die(2, "tree: %v", err)
	}
	return &tfile{label: label, data: data, root: root, tree: &tr, chunks: chunks}
}

// proof returns the payload an honest holder derives for chunk idx.
func (f *tfile) proof(idx int64) (item []byte, hashList []byte, ok bool) {
	if idx < 0 || idx >= int64(len(f.chunks)) {
		return nil, nil, false
	}
	item = f.chunks[idx]
	h := sha256.New()
	h.Write([]byte(fmt.Sprintf("%d%x", idx, item)))
	p, err := f.tree.GenerateProof(h.Sum(nil), 0)
	if err != nil {
		die(2, "GenerateProof: %v", err)
	}
	hashList, _ = json.Marshal(*p)
	if idx == 0 { // every other proof of chunk 0 is sent without the (zero-valued) "Index" key, as a serialiser that drops zero values writes it
		omitZeroIndex = !omitZeroIndex
		if omitZeroIndex {
			var m map[string]json.RawMessage
			if json.Unmarshal(hashList, &m) == nil {
				delete(m, "Index")
				if b, err := json.Marshal(m); err == nil {
					hashList = b
				}
			}
		}
	}
	return item, hashList, true
}

var omitZeroIndex bool

type sdPar struct{ I, C, cs, fs, min, price int64 }

type sdFam struct {
	c         *chain.Chain
	base      sdk.Context
	ctx       sdk.Context
	owners    []string
	provers   []string
	merkles   []string
	par       sdPar
	trees     map[string]*tfile // "label|size"
	roots     map[string]string // hex root -> label
	sizes     map[string]int64  // per-scenario size of each merkle label (random driver)
	maxChunks int64             // > 0: random file sizes up to this many chunks
	step      time.Duration
	rng       *rand.Rand
	honest    string
	mode      string
	curX      M // extras of the event being recorded (Project adds the query cross-check to it)
	queue     []M
	hwin      map[string]int64 // honest prover: fid key -> window index of last accepted proof
	doms      []string
}

func init() { families["sd"] = func() Family { return &sdFam{} } }

func (f *sdFam) Reseed(r *rand.Rand) { f.rng = r }

func geti0(m M, k string, def int64) int64 {
	if _, ok := m[k]; !ok {
		return def
	}
	return geti(m, k)
}

func (f *sdFam) Setup(cfg M, rng *rand.Rand) {
	f.rng = rng
	f.maxChunks = geti0(cfg, "maxchunks", 0)
	f.owners = strs(getl(cfg, "owners"), []string{"u1", "u2"})
	f.provers = strs(getl(cfg, "provers"), []string{"p1", "p2", "p3", "p4"})
	f.merkles = strs(getl(cfg, "merkles"), []string{"m1", "m2", "m3"})
	f.doms = []string{"d1", "d2", "d3", ""}
	f.par = sdPar{I: geti0(cfg, "I", 3), C: geti0(cfg, "C", 4), cs: geti0(cfg, "cs", 2), fs: geti0(cfg, "fs", 2), min: geti0(cfg, "min", 2), price: geti0(cfg, "price", 1000)}
	f.honest = gets(cfg, "honest")
	f.mode = gets(cfg, "mode")
	f.step = 24 * time.Hour
	f.trees = map[string]*tfile{}
	f.roots = map[string]string{}
	p := f.par
	f.c = chain.New(func(gs app.GenesisState, a *app.JackalApp) {
		var sg stypes.GenesisState
		a.AppCodec().MustUnmarshalJSON(gs["storage"], &sg)
		sg.Params.ProofWindow = p.I
		sg.Params.CheckWindow = p.C
		sg.Params.ChunkSize = p.cs
		sg.Params.AttestFormSize = p.fs
		sg.Params.AttestMinToPass = p.min
		sg.Params.MissesToBurn = 1 // a parameter no handler reads: distinct from every quorum in use, so a handler that consults it shows
		sg.Params.CollateralPrice = p.price
		gs["storage"] = a.AppCodec().MustMarshalJSON(&sg)
	})
	for _, l := range f.owners {
		a := f.c.Acct(l)
		f.c.Fund(f.c.Ctx, a.Addr, sdk.NewCoins(sdk.NewInt64Coin("ujkl", 100_000_000)))
		// a plan large and long enough for every scenario; its gauge funds the reward blocks
		_, err := f.c.Msg(f.c.Ctx, &stypes.MsgBuyStorage{Creator: a.S(), ForAddress: a.S(), DurationDays: 90, Bytes: 500_000_000_000, PaymentDenom: "ujkl"})
		if err != nil {
			die(2, "sd setup: buy storage: %v", err)
		}
	}
	for _, l := range f.provers {
		a := f.c.Acct(l)
		f.c.Fund(f.c.Ctx, a.Addr, sdk.NewCoins(sdk.NewInt64Coin("ujkl", 10_000)))
	}
	// a gauge in a second denomination, as a genesis payment gauge could hold (transactions only create ujkl gauges)
	amt2 := geti0(cfg, "gauge2", 60)
	g2 := f.c.App.StorageKeeper.NewGauge(f.c.Ctx, sdk.NewCoins(sdk.NewInt64Coin("uusd", amt2)), f.c.Ctx.BlockTime().Add(90*24*time.Hour))
	if a2, err := stypes.GetGaugeAccount(g2); err == nil {
		f.c.Fund(f.c.Ctx, a2, sdk.NewCoins(sdk.NewInt64Coin("uusd", amt2)))
	}
	f.labelGauges(f.c.Ctx)
	f.base = f.c.Ctx
}

func (f *sdFam) labelGauges(ctx sdk.Context) {
	for _, g := range f.c.App.StorageKeeper.GetAllPaymentGauges(ctx) {
		if a, err := stypes.GetGaugeAccount(g); err == nil {
			f.c.SetLabel(a.String(), "gauges")
		}
	}
}

func (f *sdFam) Reset() M {
	f.ctx, _ = f.base.CacheContext()
	f.hwin = map[string]int64{}
	f.sizes = map[string]int64{}
	for _, m := range f.merkles {
		f.sizes[m] = 1 + f.rng.Int63n(3*f.par.cs+1)
		if f.maxChunks > 0 { // files of many chunks: challenge indexes with two decimal digits and beyond 16
			f.sizes[m] = 1 + f.rng.Int63n(f.maxChunks*f.par.cs)
		}
	}
	f.queue = nil
	if f.mode == "forms" { // scripted prelude: providers in several domains, one shared file, everybody proves
		doms := []string{"d1", "d2", "d3", "d1"}
		for i, p := range f.provers {
			f.queue = append(f.queue, M{"a": "initprovider", "s": p, "dom": doms[i%len(doms)]})
		}
		m := f.merkles[0]
		o := f.owners[0]
		h := f.ctx.BlockHeight()
		f.queue = append(f.queue, M{"a": "postfile", "s": o, "m": m, "sz": f.sizes[m], "mp": int64(len(f.provers))})
		for _, p := range f.provers {
			f.queue = append(f.queue, M{"a": "postproof", "s": p, "f": []interface{}{m, o, h}, "toProve": int64(0), "c": int64(0), "claim": "valid"})
		}
	}
	if f.mode != "forms" && f.rng.Intn(3) == 0 {
		// scripted prelude of one scenario in three: every provider registers, two files are posted with room for all, and every
		// prover joins both, so that later reward blocks find provers that miss (or keep) several files at once
		for _, p := range f.provers {
			f.queue = append(f.queue, M{"a": "initprovider", "s": p, "dom": f.doms[f.rng.Intn(len(f.doms))]})
		}
		h := f.ctx.BlockHeight()
		for i, m := range f.merkles {
			if i >= 2 {
				break
			}
			o := f.owners[i%len(f.owners)]
			f.queue = append(f.queue, M{"a": "postfile", "s": o, "m": m, "sz": f.sizes[m], "mp": int64(len(f.provers))})
			for _, p := range f.provers {
				f.queue = append(f.queue, M{"a": "postproof", "s": p, "f": []interface{}{m, o, h}, "toProve": int64(0), "c": int64(0), "claim": "valid"})
			}
		}
	} else if f.mode != "forms" && f.rng.Intn(6) == 0 {
		// scripted prelude of some scenarios: twin files - the same merkle root and owner posted at height h and again at height 10h
		// (the decimal spelling of the first start is a prefix of the second), the same provers on both, then the older twin is
		// deleted: records of one file whose keys are textual prefixes of the other's must stay apart
		for _, p := range f.provers {
			f.queue = append(f.queue, M{"a": "initprovider", "s": p, "dom": f.doms[f.rng.Intn(len(f.doms))]})
		}
		h := f.ctx.BlockHeight()
		m, o := f.merkles[0], f.owners[0]
		for _, st := range []int64{h, 10 * h} {
			if st != h {
				f.queue = append(f.queue, M{"a": "_until", "h": st})
			}
			f.queue = append(f.queue, M{"a": "postfile", "s": o, "m": m, "sz": f.sizes[m], "mp": int64(len(f.provers))})
			for _, p := range f.provers {
				f.queue = append(f.queue, M{"a": "postproof", "s": p, "f": []interface{}{m, o, st}, "toProve": int64(0), "c": int64(0), "claim": "valid"})
			}
		}
		f.queue = append(f.queue, M{"a": "deletefile", "s": o, "m": m, "st": h})
	}
	return f.Project()
}

func (f *sdFam) file(label string, size int64) *tfile {
	k := fmt.Sprintf("%s|%d", label, size)
	if t, ok := f.trees[k]; ok {
		return t
	}
	data := make([]byte, size)
	h := sha256.Sum256([]byte("vh-data-" + label))
	for i := range data {
		data[i] = h[i%32] ^ byte(i/32)
	}
	t := mkfile(label, data, f.par.cs)
	f.trees[k] = t
	f.roots[hex.EncodeToString(t.root)] = label
	return t
}

func (f *sdFam) rootLabel(root []byte) string {
	if l, ok := f.roots[hex.EncodeToString(root)]; ok {
		return l
	}
	return "?" + hex.EncodeToString(root)
}

// fidOf decodes ["m","owner",start] from a step.
func fidOf(v interface{}) (string, string, int64) {
	l, ok := v.([]interface{})
	if !ok || len(l) != 3 {
		die(2, "bad fid %v", v)
	}
	return l[0].(string), l[1].(string), geti(M{"x": l[2]}, "x")
}

// realFile finds the stored file for an abstract fid; returns the tree used for it.
func (f *sdFam) realFile(m, o string, st int64) (stypes.UnifiedFile, *tfile, bool) {
	owner := f.c.Acct(o).S()
	for _, uf := range f.c.App.StorageKeeper.GetAllFileByMerkle(f.ctx) {
		if uf.Owner == owner && uf.Start == st && f.rootLabel(uf.Merkle) == m {
			return uf, f.file(m, uf.FileSize), true
		}
	}
	sz := f.sizes[m]
	if sz == 0 {
		sz = 3
	}
	return stypes.UnifiedFile{}, f.file(m, sz), false
}

func domURL(who, dom string) string {
	if dom == "" {
		return "http://localhost:3333"
	}
	// same registered domain, different URL shapes: two labels with port and path, three labels, four labels
	switch who {
	case "p2", "p5":
		return "https://" + dom + ".com:8080/api"
	case "p3":
		return "http://node." + who + "." + dom + ".com"
	}
	return "https://" + who + "." + dom + ".com"
}

// aliasIndexes lists chunk indexes whose decimal / hexadecimal spellings can be confused with those of c.
func aliasIndexes(c int64) []int64 {
	var out []int64
	if k, err := strconv.ParseInt(fmt.Sprintf("%x", c), 10, 64); err == nil { // hex spelling read as decimal
		out = append(out, k)
	}
	if k, err := strconv.ParseInt(fmt.Sprintf("%d", c), 16, 64); err == nil { // decimal spelling read as hexadecimal
		out = append(out, k)
	}
	if k, err := strconv.ParseInt(fmt.Sprintf("%o", c), 10, 64); err == nil { // octal spelling read as decimal
		out = append(out, k)
	}
	return out
}

func domOf(ip string) string {
	u, err := url.Parse(ip)
	if err != nil {
		return "!"
	}
	parts := strings.Split(u.Hostname(), ".")
	if len(parts) < 2 {
		return ""
	}
	return parts[len(parts)-2]
}

func (f *sdFam) gaugeTotal(ctx sdk.Context) int64 {
	var t int64
	for _, g := range f.c.App.StorageKeeper.GetAllPaymentGauges(ctx) {
		if a, err := stypes.GetGaugeAccount(g); err == nil {
			t += f.c.App.BankKeeper.GetBalance(ctx, a, "ujkl").Amount.Int64()
		}
	}
	return t
}

func (f *sdFam) Apply(st M) M {
	a := gets(st, "a")
	ev := M{}
	for k, v := range st {
		if k != "ok" {
			ev[k] = v
		}
	}
	k := f.c.App.StorageKeeper
	x := M{}
	ev["x"] = x
	f.curX = x
	switch a {
	case "block":
		// gauge accounts may have been removed from the gauge list by the block itself: measure via label
		b0 := f.c.Balances(f.ctx, []string{"ujkl", "uusd"})["gauges"]
		before, before2 := b0["ujkl"], b0["uusd"]
		h := f.ctx.BlockHeight() + 1
		// a panic in BeginBlock halts the node: nothing of that block is committed
		cctx, write := f.ctx.CacheContext()
		nctx := cctx.WithBlockHeight(h).WithBlockTime(f.ctx.BlockTime().Add(f.step))
		var pan interface{}
		func() {
			defer func() { pan = recover() }()
			storage.BeginBlocker(nctx, k)
		}()
		if pan == nil {
			write()
			f.ctx = f.ctx.WithBlockHeight(h).WithBlockTime(f.ctx.BlockTime().Add(f.step))
		}
		b1 := f.c.Balances(f.ctx, []string{"ujkl", "uusd"})["gauges"]
		after, after2 := b1["ujkl"], b1["uusd"]
		ev = M{"a": "block", "rel": before - after, "rel2": before2 - after2, "reward": h%f.par.C == 0, "ok": pan == nil, "x": x}
		if pan != nil {
			x["panic"] = fmt.Sprint(pan)
		}
		return ev
	case "postfile":
		o := f.c.Acct(gets(st, "s"))
		m := gets(st, "m")
		sz := geti(st, "sz")
		t := f.file(m, sz)
		_, err := f.c.Msg(f.ctx, &stypes.MsgPostFile{Creator: o.S(), Merkle: t.root, FileSize: sz, MaxProofs: geti(st, "mp"), Note: "{}"})
		ev["ok"] = err == nil
		if err != nil {
			x["err"] = err.Error()
		}
	case "deletefile":
		o := f.c.Acct(gets(st, "s"))
		m := gets(st, "m")
		_, t, _ := f.realFile(m, gets(st, "s"), geti(st, "st"))
		_, err := f.c.Msg(f.ctx, &stypes.MsgDeleteFile{Creator: o.S(), Merkle: t.root, Start: geti(st, "st")})
		ev["ok"] = err == nil
	case "postproof":
		p := f.c.Acct(gets(st, "s"))
		m, o, start := fidOf(st["f"])
		uf, t, found := f.realFile(m, o, start)
		_ = uf
		claim := gets(st, "claim")
		c := geti(st, "c")
		var item, hl []byte
		switch claim {
		case "valid":
			var ok bool
			item, hl, ok = t.proof(c)
			if !ok { // no such chunk: there is no valid proof to send
				claim = "junk"
				item, hl = []byte("junk"), []byte("{}")
			}
		case "other": // a valid proof, but of another file
			ot := f.file("other", 2*f.par.cs+1)
			item, hl, _ = ot.proof(c % int64(len(ot.chunks)))
		case "flip":
			item, hl, _ = t.proof(c % int64(len(t.chunks)))
			item = append([]byte{}, item...)
			item[0] ^= 1
		case "trunc":
			item, hl, _ = t.proof(c % int64(len(t.chunks)))
			hl = hl[:len(hl)/2]
		case "sibling": // right item, proof path of a different chunk
			if len(t.chunks) == 1 { // a one-leaf tree has no other path: nothing to swap
				claim = "junk"
				item, hl = []byte("junk"), []byte("{}")
			} else {
				item, _, _ = t.proof(c % int64(len(t.chunks)))
				_, hl, _ = t.proof((c + 1) % int64(len(t.chunks)))
			}
		default:
			claim = "junk"
			item, hl = []byte("junk"), []byte("{}")
		}
		ev["claim"] = claim
		res, err := f.c.Msg(f.ctx, &stypes.MsgPostProof{Creator: p.S(), Item: item, HashList: hl, Merkle: t.root, Owner: f.c.Acct(o).S(), Start: start, ToProve: geti(st, "toProve")})
		ok := false
		if err == nil && res != nil {
			var r stypes.MsgPostProofResponse
			if e := r.Unmarshal(res.Data); e == nil {
				ok = r.Success
				if !ok {
					x["err"] = r.ErrorMessage
				}
			}
		} else if err != nil {
			x["err"] = err.Error()
		}
		ev["ok"] = ok
		x["nc"] = int64(0)
		if found {
			if pr, fnd := k.GetProof(f.ctx, p.S(), t.root, f.c.Acct(o).S(), start); fnd {
				x["nc"] = pr.ChunkToProve
			}
			if ok && gets(st, "s") == f.honest {
				f.hwin[fmt.Sprintf("%s|%s|%d", m, o, start)] = (f.ctx.BlockHeight() - start) / uf.ProofInterval
			}
		}
	case "initprovider":
		p := f.c.Acct(gets(st, "s"))
		_, err := f.c.Msg(f.ctx, &stypes.MsgInitProvider{Creator: p.S(), Ip: domURL(p.Label, gets(st, "dom")), Keybase: "", TotalSpace: 1000000})
		ev["ok"] = err == nil
	case "shutdown":
		p := f.c.Acct(gets(st, "s"))
		_, err := f.c.Msg(f.ctx, &stypes.MsgShutdownProvider{Creator: p.S()})
		ev["ok"] = err == nil
	case "setip":
		p := f.c.Acct(gets(st, "s"))
		_, err := f.c.Msg(f.ctx, &stypes.MsgSetProviderIP{Creator: p.S(), Ip: domURL(p.Label, gets(st, "dom"))})
		ev["ok"] = err == nil
	case "setprice":
		pr := k.GetParams(f.ctx)
		pr.CollateralPrice = geti(st, "v")
		k.SetParams(f.ctx, pr)
		ev["ok"] = true
		return ev
	case "reqattest", "reqreport":
		s := f.c.Acct(gets(st, "s"))
		m, o, start := fidOf(st["f"])
		_, t, _ := f.realFile(m, o, start)
		var res *sdk.Result
		var err error
		names := []interface{}{}
		ok := false
		if a == "reqattest" {
			res, err = f.c.Msg(f.ctx, &stypes.MsgRequestAttestationForm{Creator: s.S(), Merkle: t.root, Owner: f.c.Acct(o).S(), Start: start})
			if err == nil {
				var r stypes.MsgRequestAttestationFormResponse
				if e := r.Unmarshal(res.Data); e == nil {
					ok = r.Success
					for _, n := range r.Providers {
						names = append(names, f.c.LabelOf(n))
					}
					x["err"] = r.Error
				}
			}
		} else {
			res, err = f.c.Msg(f.ctx, &stypes.MsgRequestReportForm{Creator: s.S(), Prover: f.c.Acct(gets(st, "p")).S(), Merkle: t.root, Owner: f.c.Acct(o).S(), Start: start})
			if err == nil {
				var r stypes.MsgRequestReportFormResponse
				if e := r.Unmarshal(res.Data); e == nil {
					ok = r.Success
					for _, n := range r.Providers {
						names = append(names, f.c.LabelOf(n))
					}
					x["err"] = r.Error
				}
			}
		}
		if err != nil {
			x["err"] = err.Error()
		}
		if !ok {
			names = []interface{}{}
		}
		ev["names"] = names
		ev["ok"] = ok
	case "attest", "report":
		s := f.c.Acct(gets(st, "s"))
		m, o, start := fidOf(st["f"])
		_, t, _ := f.realFile(m, o, start)
		var err error
		if a == "attest" {
			_, err = f.c.Msg(f.ctx, &stypes.MsgAttest{Creator: s.S(), Prover: f.c.Acct(gets(st, "p")).S(), Merkle: t.root, Owner: f.c.Acct(o).S(), Start: start})
		} else {
			_, err = f.c.Msg(f.ctx, &stypes.MsgReport{Creator: s.S(), Prover: f.c.Acct(gets(st, "p")).S(), Merkle: t.root, Owner: f.c.Acct(o).S(), Start: start})
		}
		ev["ok"] = err == nil
		if err != nil {
			x["err"] = err.Error()
		}
	default:
		die(2, "sd: unknown action %q", a)
	}
	return ev
}

func (f *sdFam) fidJSON(merkle []byte, owner string, start int64) []interface{} {
	return []interface{}{f.rootLabel(merkle), f.c.LabelOf(owner), start}
}

func (f *sdFam) fileRec(uf stypes.UnifiedFile) M {
	proofs := []interface{}{}
	for _, pk := range uf.Proofs {
		prover := strings.Split(pk, "/")[0]
		if pk == string(stypes.ProofKey(prover, uf.Merkle, uf.Owner, uf.Start)) {
			proofs = append(proofs, f.c.LabelOf(prover))
		} else {
			proofs = append(proofs, "badkey:"+pk)
		}
	}
	return M{"id": f.fidJSON(uf.Merkle, uf.Owner, uf.Start), "size": uf.FileSize, "maxp": uf.MaxProofs, "start": uf.Start,
		"interval": uf.ProofInterval, "proofs": proofs}
}

func sortRecs(l []interface{}) {
	sort.Slice(l, func(i, j int) bool {
		a, _ := json.Marshal(l[i])
		b, _ := json.Marshal(l[j])
		return string(a) < string(b)
	})
}

type marshaler interface{ Marshal() ([]byte, error) }

func sameMsg(a, b marshaler) bool {
	x, e1 := a.Marshal()
	y, e2 := b.Marshal()
	return e1 == nil && e2 == nil && bytes.Equal(x, y)
}

// queryCheck compares the public gRPC query methods with the keeper getters: every file must be found by
// either route (AllFiles, AllFilesByOwner, File) and every listed prover's proof record through Proof and
// ProofsByAddress. Returns a list of discrepancies (empty when consistent).
func (f *sdFam) queryCheck() []interface{} {
	k := f.c.App.StorageKeeper
	g := sdk.WrapSDKContext(f.ctx)
	bad := []interface{}{}
	key := func(uf stypes.UnifiedFile) string { return fmt.Sprintf("%x/%s/%d", uf.Merkle, uf.Owner, uf.Start) }
	byM := map[string]stypes.UnifiedFile{}
	for _, uf := range k.GetAllFileByMerkle(f.ctx) {
		byM[key(uf)] = uf
	}
	all, err := k.AllFiles(g, &stypes.QueryAllFiles{})
	if err != nil || len(all.Files) != len(byM) {
		bad = append(bad, "AllFiles size")
	} else {
		for _, uf := range all.Files {
			if o, ok := byM[key(uf)]; !ok || !sameMsg(&o, &uf) {
				bad = append(bad, "AllFiles content "+key(uf))
			}
		}
	}
	perOwner := map[string]int{}
	for _, uf := range byM {
		perOwner[uf.Owner]++
		r, err := k.File(g, &stypes.QueryFile{Merkle: uf.Merkle, Owner: uf.Owner, Start: uf.Start})
		if err != nil || !sameMsg(&r.File, &uf) {
			bad = append(bad, "File "+key(uf))
		}
		for _, pk := range uf.Proofs {
			prover := strings.Split(pk, "/")[0]
			pr, err := k.Proof(g, &stypes.QueryProof{ProviderAddress: prover, Merkle: uf.Merkle, Owner: uf.Owner, Start: uf.Start})
			if err != nil || pr.Proof.Prover != prover || string(pr.Proof.Merkle) != string(uf.Merkle) || pr.Proof.Owner != uf.Owner || pr.Proof.Start != uf.Start {
				bad = append(bad, "Proof "+pk)
				continue
			}
			pa, err := k.ProofsByAddress(g, &stypes.QueryProofsByAddress{ProviderAddress: prover})
			found := false
			if err == nil {
				for _, q := range pa.Proofs {
					if sameMsg(&q, &pr.Proof) {
						found = true
					}
				}
			}
			if !found {
				bad = append(bad, "ProofsByAddress "+pk)
			}
		}
	}
	for _, l := range f.owners {
		o := f.c.Acct(l).S()
		r, err := k.AllFilesByOwner(g, &stypes.QueryAllFilesByOwner{Owner: o})
		if err != nil || len(r.Files) != perOwner[o] {
			bad = append(bad, "AllFilesByOwner size "+l)
			continue
		}
		for _, uf := range r.Files {
			if m, ok := byM[key(uf)]; !ok || !sameMsg(&m, &uf) {
				bad = append(bad, "AllFilesByOwner content "+key(uf))
			}
		}
	}
	return bad
}

func (f *sdFam) Project() M {
	k := f.c.App.StorageKeeper
	if f.curX != nil {
		f.curX["qbad"] = f.queryCheck()
		f.curX = nil
	}
	files, filesO, proofs := []interface{}{}, []interface{}{}, []interface{}{}
	for _, uf := range k.GetAllFileByMerkle(f.ctx) {
		files = append(files, f.fileRec(uf))
	}
	for _, uf := range k.GetAllFileByOwner(f.ctx) {
		filesO = append(filesO, f.fileRec(uf))
	}
	for _, p := range k.GetAllProofs(f.ctx) {
		proofs = append(proofs, M{"p": f.c.LabelOf(p.Prover), "id": f.fidJSON(p.Merkle, p.Owner, p.Start), "last": p.LastProven, "chunk": p.ChunkToProve})
	}
	sortRecs(files)
	sortRecs(filesO)
	sortRecs(proofs)
	providers := M{}
	for _, p := range k.GetAllProviders(f.ctx) {
		b, err := strconv.ParseInt(p.BurnedContracts, 10, 64)
		if err != nil {
			b = -1
		}
		providers[f.c.LabelOf(p.Address)] = M{"burned": b, "dom": domOf(p.Ip)}
	}
	collat := M{}
	for _, c := range k.GetAllCollateral(f.ctx) {
		collat[f.c.LabelOf(c.Address)] = c.Amount
	}
	form := func(prover string, merkle []byte, owner string, start int64, atts []*stypes.Attestation) M {
		names, done := []interface{}{}, []interface{}{}
		for _, a := range atts {
			names = append(names, f.c.LabelOf(a.Provider))
			if a.Complete {
				done = append(done, f.c.LabelOf(a.Provider))
			}
		}
		return M{"p": f.c.LabelOf(prover), "id": f.fidJSON(merkle, owner, start), "names": names, "done": done}
	}
	attest, report := []interface{}{}, []interface{}{}
	for _, a := range k.GetAllAttestation(f.ctx) {
		attest = append(attest, form(a.Prover, a.Merkle, a.Owner, a.Start, a.Attestations))
	}
	for _, a := range k.GetAllReport(f.ctx) {
		report = append(report, form(a.Prover, a.Merkle, a.Owner, a.Start, a.Attestations))
	}
	sortRecs(attest)
	sortRecs(report)
	f.labelGauges(f.ctx)
	keep := map[string]bool{"m:storage": true, "m:storage_collateral_name": true, "gauges": true}
	for _, l := range f.owners {
		keep[l] = true
	}
	for _, l := range f.provers {
		keep[l] = true
	}
	bal, bal2 := M{}, M{}
	var other, other2 int64
	for l, m := range f.c.Balances(f.ctx, []string{"ujkl", "uusd"}) {
		if keep[l] {
			bal[l], bal2[l] = m["ujkl"], m["uusd"]
		} else {
			other += m["ujkl"]
			other2 += m["uusd"]
		}
	}
	bal["other"], bal2["other"] = other, other2
	if _, ok := bal["gauges"]; !ok {
		bal["gauges"], bal2["gauges"] = int64(0), int64(0)
	}
	pr := k.GetParams(f.ctx)
	par := M{"I": pr.ProofWindow, "C": pr.CheckWindow, "cs": pr.ChunkSize, "fs": pr.AttestFormSize, "min": pr.AttestMinToPass, "price": pr.CollateralPrice}
	return M{"files": files, "filesO": filesO, "proofs": proofs, "providers": providers, "collat": collat,
		"attest": attest, "report": report, "bal": bal, "bal2": bal2, "height": f.ctx.BlockHeight(), "par": par}
}

// ---- random driver ----

func (f *sdFam) pickFile(rng *rand.Rand) (stypes.UnifiedFile, bool) {
	all := f.c.App.StorageKeeper.GetAllFileByMerkle(f.ctx)
	if len(all) == 0 {
		return stypes.UnifiedFile{}, false
	}
	return all[rng.Intn(len(all))], true
}

func (f *sdFam) fidStep(uf stypes.UnifiedFile) []interface{} {
	return []interface{}{f.rootLabel(uf.Merkle), f.c.LabelOf(uf.Owner), uf.Start}
}

func (f *sdFam) curChunk(p string, uf stypes.UnifiedFile) int64 {
	if pr, ok := f.c.App.StorageKeeper.GetProof(f.ctx, f.c.Acct(p).S(), uf.Merkle, uf.Owner, uf.Start); ok {
		return pr.ChunkToProve
	}
	return 0
}

func (f *sdFam) honestDue(crossingOnly bool) M {
	if f.honest == "" {
		return nil
	}
	h := f.ctx.BlockHeight()
	for _, uf := range f.c.App.StorageKeeper.GetAllFileByMerkle(f.ctx) {
		key := fmt.Sprintf("%s|%s|%d", f.rootLabel(uf.Merkle), f.c.LabelOf(uf.Owner), uf.Start)
		listed := uf.ContainsProver(f.c.Acct(f.honest).S())
		if !listed {
			if !crossingOnly && int64(len(uf.Proofs)) < uf.MaxProofs { // join
				return M{"a": "postproof", "s": f.honest, "f": f.fidStep(uf), "toProve": int64(0), "c": int64(0), "claim": "valid"}
			}
			continue
		}
		w := (h - uf.Start) / uf.ProofInterval
		wn := (h + 1 - uf.Start) / uf.ProofInterval
		last, ok := f.hwin[key]
		if (!ok || last < w) && (wn > w || !crossingOnly) {
			c := f.curChunk(f.honest, uf)
			return M{"a": "postproof", "s": f.honest, "f": f.fidStep(uf), "toProve": c, "c": c, "claim": "valid"}
		}
	}
	return nil
}

func (f *sdFam) Random(rng *rand.Rand) M {
	for len(f.queue) > 0 {
		st := f.queue[0]
		if gets(st, "a") == "_until" { // blocks (the honest prover keeps proving) until the given height is reached
			if f.ctx.BlockHeight() < geti(st, "h") {
				if d := f.honestDue(true); d != nil {
					return d
				}
				return M{"a": "block"}
			}
			f.queue = f.queue[1:]
			continue
		}
		f.queue = f.queue[1:]
		return st
	}
	prover := func() string { return f.provers[rng.Intn(len(f.provers))] }
	owner := func() string { return f.owners[rng.Intn(len(f.owners))] }
	k := f.c.App.StorageKeeper
	nfiles := len(k.GetAllFileByMerkle(f.ctx))
	r := rng.Intn(100)
	if f.mode == "forms" && nfiles > 0 && rng.Intn(2) == 0 {
		r = 54 + rng.Intn(29)
	}
	listedProver := func(uf stypes.UnifiedFile) string {
		if len(uf.Proofs) == 0 || rng.Intn(4) == 0 {
			return prover()
		}
		return f.c.LabelOf(strings.Split(uf.Proofs[rng.Intn(len(uf.Proofs))], "/")[0])
	}
	switch {
	case r < 8 || nfiles == 0:
		m := f.merkles[rng.Intn(len(f.merkles))]
		return M{"a": "postfile", "s": owner(), "m": m, "sz": f.sizes[m], "mp": int64(1 + rng.Intn(3))}
	case r < 10:
		if uf, ok := f.pickFile(rng); ok {
			return M{"a": "deletefile", "s": f.c.LabelOf(uf.Owner), "m": f.rootLabel(uf.Merkle), "st": uf.Start}
		}
	case r < 40: // proofs, mostly valid for the current challenge
		uf, _ := f.pickFile(rng)
		p := prover()
		c := f.curChunk(p, uf)
		st := M{"a": "postproof", "s": p, "f": f.fidStep(uf), "toProve": c, "c": c, "claim": "valid"}
		q := rng.Intn(20)
		if f.maxChunks > 0 { // many-chunk files: whenever the challenge has a confusable spelling inside the file, try it half of the time
			nch := (uf.FileSize + f.par.cs - 1) / f.par.cs
			for _, k := range aliasIndexes(c) {
				if k != c && k >= 0 && k < nch && rng.Intn(2) == 0 {
					q = 17
				}
			}
		}
		switch {
		case q < 11:
		case q == 11:
			st["claim"] = "junk"
		case q == 12:
			st["claim"] = "other"
		case q == 13:
			st["claim"] = "flip"
		case q == 14:
			st["claim"] = "trunc"
		case q == 15:
			st["claim"] = "sibling"
		case q == 16: // valid proof of another chunk, announced honestly
			st["c"], st["toProve"] = c+1, c+1
		case q == 17: // right chunk announced, proof of another one: a neighbour or an index whose textual encoding is confusable
			// with the challenged one (18 written in hexadecimal reads "12", 12 read as hexadecimal is 18, ...)
			var cands []int64
			nch := (uf.FileSize + f.par.cs - 1) / f.par.cs
			for _, k := range aliasIndexes(c) { // spelling aliases first
				if k != c && k >= 0 && k < nch {
					cands = append(cands, k)
				}
			}
			if len(cands) == 0 || rng.Intn(4) == 0 {
				cands = append(cands, c+1, c-1, c/10, c%10)
			}
			st["c"] = cands[rng.Intn(len(cands))]
		case q == 18: // unknown file
			st["f"] = []interface{}{f.rootLabel(uf.Merkle), f.c.LabelOf(uf.Owner), uf.Start + 1000}
		default:
			st["toProve"] = c + 1
		}
		return st
	case r < 48:
		return M{"a": "initprovider", "s": prover(), "dom": f.doms[rng.Intn(len(f.doms))]}
	case r < 50:
		return M{"a": "shutdown", "s": prover()}
	case r < 52:
		return M{"a": "setip", "s": prover(), "dom": f.doms[rng.Intn(len(f.doms))]}
	case r < 54:
		return M{"a": "setprice", "v": int64([]int{2, 500, 1000, 2500, 9000, 25000}[rng.Intn(6)])}
	case r < 60:
		if uf, ok := f.pickFile(rng); ok {
			return M{"a": "reqattest", "s": listedProver(uf), "f": f.fidStep(uf)}
		}
	case r < 70:
		if l := k.GetAllAttestation(f.ctx); len(l) > 0 && rng.Intn(5) != 0 {
			a := l[rng.Intn(len(l))]
			s := prover()
			if rng.Intn(3) != 0 && len(a.Attestations) > 0 {
				s = f.c.LabelOf(a.Attestations[rng.Intn(len(a.Attestations))].Provider)
			}
			return M{"a": "attest", "s": s, "p": f.c.LabelOf(a.Prover), "f": f.fidJSON(a.Merkle, a.Owner, a.Start)}
		}
		if uf, ok := f.pickFile(rng); ok {
			return M{"a": "attest", "s": prover(), "p": prover(), "f": f.fidStep(uf)}
		}
	case r < 75:
		if uf, ok := f.pickFile(rng); ok {
			return M{"a": "reqreport", "s": owner(), "p": listedProver(uf), "f": f.fidStep(uf)}
		}
	case r < 83:
		if l := k.GetAllReport(f.ctx); len(l) > 0 && rng.Intn(5) != 0 {
			a := l[rng.Intn(len(l))]
			s := prover()
			if rng.Intn(3) != 0 && len(a.Attestations) > 0 {
				s = f.c.LabelOf(a.Attestations[rng.Intn(len(a.Attestations))].Provider)
			}
			return M{"a": "report", "s": s, "p": f.c.LabelOf(a.Prover), "f": f.fidJSON(a.Merkle, a.Owner, a.Start)}
		}
		if uf, ok := f.pickFile(rng); ok {
			return M{"a": "report", "s": prover(), "p": prover(), "f": f.fidStep(uf)}
		}
	}
	// block boundary; the honest prover first makes sure it has proven in the window that is about to close
	if st := f.honestDue(true); st != nil {
		return st
	}
	if f.honest != "" && rng.Intn(3) == 0 {
		if st := f.honestDue(false); st != nil {
			return st
		}
	}
	return M{"a": "block"}
}

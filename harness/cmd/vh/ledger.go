package main

import (
	"fmt"
	"math/big"
	"reflect"

	sdk "github.com/cosmos/cosmos-sdk/types"
	authtypes "github.com/cosmos/cosmos-sdk/x/auth/types"

	jtypes "github.com/jackalLabs/canine-chain/v4/types"
	mkeeper "github.com/jackalLabs/canine-chain/v4/x/jklmint/keeper"
	stypes "github.com/jackalLabs/canine-chain/v4/x/storage/types"
)

// Ledger projection of the whole application (spec/Ledger.tla): balances per account class and
// denomination, the obligations recorded in module state (open bids, collateral records) and the supply.
// Classes with a zero baseline (module accounts, gauges) are reported as absolute amounts; the large ones
// (users, pol, other, supply) relative to the scenario's baseline so that they fit TLC's integers.

var lgDenoms = []string{"ujkl", "uusd"}
var lgClasses = []string{"users", "pol", "gauges", "stor", "collm", "rns", "mint", "other"}

type lgSnap struct {
	mintTo   [3]*big.Int // ujkl held by the three recipients of the emission: stakers (fee collector + distribution), dev grants, stipend
	ratios   [3]int64    // their configured percentages when the snapshot was taken
	sameAcct bool        // the stipend parameter names the dev-grants account
	bal      map[string]map[string]*big.Int
	bids     map[string]*big.Int
	coll     *big.Int
	supply   map[string]*big.Int
}

func (f *chainFam) lgClassOf(addr string) string {
	if f.lgGauge[addr] {
		return "gauges"
	}
	switch addr {
	case f.lgAddr["stor"]:
		return "stor"
	case f.lgAddr["collm"]:
		return "collm"
	case f.lgAddr["rns"]:
		return "rns"
	case f.lgAddr["mint"]:
		return "mint"
	case f.lgAddr["pol"]:
		return "pol"
	}
	if f.lgUsers[addr] {
		return "users"
	}
	return "other"
}

func (f *chainFam) lgInit() {
	f.lgAddr = map[string]string{
		"stor":  authtypes.NewModuleAddress(stypes.ModuleName).String(),
		"collm": authtypes.NewModuleAddress(stypes.CollateralCollectorName).String(),
		"rns":   authtypes.NewModuleAddress("rns").String(),
		"mint":  authtypes.NewModuleAddress("jklmint").String(),
	}
	if pol, err := jtypes.GetPOLAccount(); err == nil {
		f.lgAddr["pol"] = pol.String()
	}
	f.lgUsers = map[string]bool{}
	for _, l := range f.labels {
		f.lgUsers[f.c.Acct(l).S()] = true
	}
	f.lgGauge = map[string]bool{}
}

func (f *chainFam) lgTake() *lgSnap {
	ctx := f.c.Ctx
	for _, g := range f.c.App.StorageKeeper.GetAllPaymentGauges(ctx) {
		if a, err := stypes.GetGaugeAccount(g); err == nil {
			f.lgGauge[a.String()] = true // a gauge account stays in its class after the record is removed
		}
	}
	s := &lgSnap{bal: map[string]map[string]*big.Int{}, bids: map[string]*big.Int{}, coll: new(big.Int), supply: map[string]*big.Int{}}
	for _, c := range lgClasses {
		s.bal[c] = map[string]*big.Int{}
		for _, d := range lgDenoms {
			s.bal[c][d] = new(big.Int)
		}
	}
	want := map[string]bool{}
	for _, d := range lgDenoms {
		want[d] = true
		s.bids[d] = new(big.Int)
		s.supply[d] = f.c.App.BankKeeper.GetSupply(ctx, d).Amount.BigInt()
	}
	walked := func() (ok bool) {
		defer func() {
			if recover() != nil {
				ok = false
			}
		}()
		f.c.App.BankKeeper.IterateAllBalances(ctx, func(addr sdk.AccAddress, coin sdk.Coin) bool {
			if want[coin.Denom] {
				b := s.bal[f.lgClassOf(addr.String())][coin.Denom]
				b.Add(b, coin.Amount.BigInt())
			}
			return false
		})
		return true
	}()
	if !walked {
		// the bank store cannot be walked (a balance sits under a key that is not an address): the supply no longer equals
		// the sum over accounts that can be named; shown as a conservation failure by zeroing the class sums
		for _, c := range lgClasses {
			for _, d := range lgDenoms {
				s.bal[c][d] = new(big.Int)
			}
		}
	}
	for _, b := range f.c.App.RnsKeeper.GetAllBids(ctx) {
		cs, err := sdk.ParseCoinsNormalized(b.Price)
		if err != nil {
			continue
		}
		for _, c := range cs {
			if want[c.Denom] {
				s.bids[c.Denom].Add(s.bids[c.Denom], c.Amount.BigInt())
			}
		}
	}
	for _, c := range f.c.App.StorageKeeper.GetAllCollateral(ctx) {
		s.coll.Add(s.coll, big.NewInt(c.Amount))
	}
	mp := f.c.App.MintKeeper.GetParams(ctx)
	s.ratios = [3]int64{mp.StakerRatio, mp.DevGrantsRatio, mp.StorageProviderRatio}
	bal := func(a sdk.AccAddress) *big.Int { return f.c.App.BankKeeper.GetBalance(ctx, a, "ujkl").Amount.BigInt() }
	s.mintTo[0] = new(big.Int).Add(bal(authtypes.NewModuleAddress("fee_collector")), bal(authtypes.NewModuleAddress("distribution")))
	s.mintTo[1], s.mintTo[2] = new(big.Int), new(big.Int)
	if dev, err := mkeeper.GetDevGrantsAccount(); err == nil {
		s.mintTo[1] = bal(dev)
	}
	if st, err := sdk.AccAddressFromBech32(mp.StorageStipendAddress); err == nil {
		s.mintTo[2] = bal(st)
		if dev, err := mkeeper.GetDevGrantsAccount(); err == nil && dev.Equals(st) {
			s.sameAcct = true // one account receives both the dev-grants and the stipend share
		}
	}
	return s
}

var lgRelative = map[string]bool{"users": true, "pol": true, "other": true}

// lgProject renders the snapshot; "big" = some number does not fit TLC's 32-bit integers (whale histories):
// the spec then skips the ledger formulas for the rest of that scenario.
func (f *chainFam) lgProject(s *lgSnap) M {
	fits := true
	num := func(x *big.Int) int64 {
		if !x.IsInt64() || x.Int64() > 2_000_000_000 || x.Int64() < -2_000_000_000 {
			fits = false
			return 0
		}
		return x.Int64()
	}
	bal := M{}
	for _, c := range lgClasses {
		m := M{}
		for _, d := range lgDenoms {
			v := new(big.Int).Set(s.bal[c][d])
			if lgRelative[c] {
				v.Sub(v, f.lgBase.bal[c][d])
			}
			m[d] = num(v)
		}
		bal[c] = m
	}
	bids, sup := M{}, M{}
	for _, d := range lgDenoms {
		bids[d] = num(s.bids[d])
		sup[d] = num(new(big.Int).Sub(s.supply[d], f.lgBase.supply[d]))
	}
	// auth records of the labelled accounts: (account number, sequence); -1 = no account yet
	auth := M{}
	for _, l := range f.labels {
		acc := f.c.App.AccountKeeper.GetAccount(f.c.Ctx, f.c.Acct(l).Addr)
		if acc == nil {
			auth[l] = M{"num": int64(-1), "seq": int64(0)}
		} else {
			auth[l] = M{"num": int64(acc.GetAccountNumber()), "seq": int64(acc.GetSequence())}
		}
	}
	// storage plans against the files they pay for, compared with big integers (sizes can be anything up to MaxInt64):
	// per plan the sign of the space used, whether it fits the space bought, whether it equals the footprint
	// (size x replication) of the owner's live plan-paid files
	foot := map[string]*big.Int{}
	for _, uf := range f.c.App.StorageKeeper.GetAllFileByMerkle(f.c.Ctx) {
		if uf.Expires <= 0 {
			if foot[uf.Owner] == nil {
				foot[uf.Owner] = new(big.Int)
			}
			foot[uf.Owner].Add(foot[uf.Owner], new(big.Int).Mul(big.NewInt(uf.FileSize), big.NewInt(uf.MaxProofs)))
		}
	}
	plans := []interface{}{}
	for _, spi := range f.c.App.StorageKeeper.GetAllStoragePaymentInfo(f.c.Ctx) {
		fp := foot[spi.Address]
		if fp == nil {
			fp = new(big.Int)
		}
		plans = append(plans, M{"owner": f.c.LabelOf(spi.Address), "neg": spi.SpaceUsed < 0, "fits": spi.SpaceUsed <= spi.SpaceAvailable,
			"eq": big.NewInt(spi.SpaceUsed).Cmp(fp) == 0})
	}
	sortRecs(plans)
	// stored files (C17 at whole-application level, creators in any valid spelling): problems found per file, none expected
	fileBad := []interface{}{}
	byOwner := map[string]bool{}
	for _, uf := range f.c.App.StorageKeeper.GetAllFileByOwner(f.c.Ctx) {
		byOwner[fmt.Sprintf("%x/%s/%d", uf.Merkle, uf.Owner, uf.Start)] = true
	}
	nByMerkle := 0
	for _, uf := range f.c.App.StorageKeeper.GetAllFileByMerkle(f.c.Ctx) {
		nByMerkle++
		id := fmt.Sprintf("%x/%s/%d", uf.Merkle, uf.Owner, uf.Start)
		if !byOwner[id] {
			fileBad = append(fileBad, "index")
		}
		if uf.MaxProofs >= 0 && int64(len(uf.Proofs)) > uf.MaxProofs {
			fileBad = append(fileBad, "over")
		}
		seen := map[string]bool{}
		for _, pk := range uf.Proofs {
			if seen[pk] {
				fileBad = append(fileBad, "dup")
			}
			seen[pk] = true
			if _, ok := f.c.App.StorageKeeper.GetProofWithBuiltKey(f.c.Ctx, []byte(pk)); !ok {
				fileBad = append(fileBad, "norecord")
			}
		}
	}
	if nByMerkle != len(byOwner) {
		fileBad = append(fileBad, "index")
	}
	// how the emission of this step (supply growth, if any) was split, against floor(emission * percentage / 100) computed
	// with big integers (emissions may be anywhere in the int64 range): residual per recipient, and what the mint module kept
	split := M{"rs": int64(0), "rd": int64(0), "rp": int64(0), "rem": int64(0), "collres": int64(0)}
	if f.lgPrev != nil {
		e := new(big.Int).Sub(s.supply["ujkl"], f.lgPrev.supply["ujkl"])
		small := func(x *big.Int) int64 {
			if !x.IsInt64() || x.Int64() > 1_000_000_000 || x.Int64() < -1_000_000_000 {
				if x.Sign() < 0 {
					return -1_000_000_000
				}
				return 1_000_000_000
			}
			return x.Int64()
		}
		wants := [3]*big.Int{}
		for i := range wants {
			wants[i] = new(big.Int).Mul(e, big.NewInt(f.lgPrev.ratios[i]))
			wants[i].Quo(wants[i], big.NewInt(100))
		}
		for i, k := range []string{"rs", "rd", "rp"} {
			want := wants[i]
			if f.lgPrev.sameAcct && i >= 1 { // both shares land in the same account
				want = new(big.Int).Add(wants[1], wants[2])
			}
			got := new(big.Int).Sub(s.mintTo[i], f.lgPrev.mintTo[i])
			split[k] = small(got.Sub(got, want))
		}
		split["rem"] = small(new(big.Int).Sub(s.bal["mint"]["ujkl"], f.lgPrev.bal["mint"]["ujkl"]))
	}
	f.lgPrev = s
	// collateral account balance minus the sum of the collateral records, with big integers (prices above 2^31 too): 0 expected
	cres := new(big.Int).Sub(s.bal["collm"]["ujkl"], s.coll)
	collres := int64(1_000_000_000)
	if cres.IsInt64() && cres.Int64() < 1_000_000_000 && cres.Int64() > -1_000_000_000 {
		collres = cres.Int64()
	} else if cres.Sign() < 0 {
		collres = -1_000_000_000
	}
	split["collres"] = collres
	out := M{"bal": bal, "bids": bids, "coll": num(s.coll), "supply": sup, "auth": auth, "plans": plans, "split": split, "files": fileBad}
	if !fits || f.lgBig {
		f.lgBig = true
		return M{"big": true, "split": split}
	}
	out["big"] = false
	return out
}

// coinOfMsg returns the first sdk.Coin field of a message (the amount a bid / listing names), if any.
func coinOfMsg(m sdk.Msg) (string, int64) {
	v := reflect.ValueOf(m).Elem()
	for i := 0; i < v.NumField(); i++ {
		if c, ok := v.Field(i).Interface().(sdk.Coin); ok {
			if c.Amount.IsNil() || !c.Amount.IsInt64() || c.Amount.Int64() > 2_000_000_000 || c.Amount.Int64() < 0 {
				return c.Denom, -1
			}
			return c.Denom, c.Amount.Int64()
		}
	}
	return "", -1
}

package main

import (
	"math/rand"
	"strings"

	sdk "github.com/cosmos/cosmos-sdk/types"

	"vh/chain"
)

// authFam: for every registered custom message type, GetSigners / routing / signature acceptance through
// the real ante handler (signed DeliverTx with several signature sets).
type authFam struct {
	c     *chain.Chain
	rng   *rand.Rand
	queue []M
	done  bool
}

func init() { families["auth"] = func() Family { return &authFam{} } }

func (f *authFam) Reseed(r *rand.Rand) { f.rng = r }

func (f *authFam) Setup(cfg M, rng *rand.Rand) { f.rng = rng }

var authLabels = []string{"s0", "s1", "s2", "s3", "s4", "s5"}

func (f *authFam) Reset() M {
	if f.c != nil {
		f.c.Close()
	}
	f.c = chain.New(smallParams)
	for _, l := range authLabels {
		f.c.Fund(f.c.Ctx, f.c.Acct(l).Addr, sdk.NewCoins(sdk.NewInt64Coin("ujkl", 2_000_000_000)))
	}
	f.queue = nil
	for _, u := range customMsgTypes(f.c.App) {
		f.queue = append(f.queue, M{"a": "msgtype", "t": u})
		for _, set := range []string{"creator", "other", "both", "named"} {
			f.queue = append(f.queue, M{"a": "deliver", "t": u, "set": set})
		}
	}
	return M{}
}

func (f *authFam) Project() M { return M{} }

// build returns a message of the type with distinct accounts in every address-typed field and otherwise
// benign values chosen to pass ValidateBasic.
func (f *authFam) build(url string) (sdk.Msg, []string) {
	m := newMsg(f.c.App, url)
	i := 0
	p := picker{
		addr: func(fd string) string {
			l := authLabels[0]
			if fd != "Creator" {
				i++
				l = authLabels[1+(i-1)%(len(authLabels)-1)]
			}
			return f.c.Acct(l).S()
		},
		str: func(fd string) string {
			switch fd {
			case "Name":
				return "authname.jkl"
			case "Ip":
				return "https://node.example.com"
			case "Note", "Contents", "Data", "Viewers", "Editors":
				return "{}"
			case "PaymentDenom":
				return "ujkl"
			case "Bid", "Price":
				return "1ujkl"
			case "Account", "HashParent", "HashChild", "HashPath", "FileOwner", "NewOwner":
				return hx(fd)
			case "ViewerIds", "EditorIds":
				return hx("id")
			case "ViewerKeys", "EditorKeys":
				return "k"
			case "Record":
				return "rec"
			case "Value":
				return "v"
			}
			return "x"
		},
		i64: func(fd string) int64 {
			switch fd {
			case "DurationDays":
				return 30
			case "Bytes":
				return 1_000_000_000
			case "Expires", "ToProve", "ProofType", "ProofInterval":
				return 0
			}
			return 1
		},
		bytes_: func(fd string) []byte { return []byte(hx(fd))[:32] },
		b:      func() bool { return false },
		coin:   func(fd string) sdk.Coin { return sdk.NewInt64Coin("ujkl", 1) },
		strs:   func(fd string) []string { return []string{f.c.Acct("s5").S()} },
	}
	fields := fillMsg(m, p)
	return m, fields
}

func (f *authFam) labelsOf(as []sdk.AccAddress) []interface{} {
	out := []interface{}{}
	for _, a := range as {
		out = append(out, f.c.LabelOf(a.String()))
	}
	return out
}

func (f *authFam) Apply(st M) M {
	url := gets(st, "t")
	m, fields := f.build(url)
	creator := "?"
	if len(fields) > 0 && fields[0] == "Creator" {
		creator = "s0"
	}
	switch gets(st, "a") {
	case "msgtype":
		var signers []interface{}
		func() {
			defer func() {
				if recover() != nil {
					signers = []interface{}{"!panic"}
				}
			}()
			signers = f.labelsOf(m.GetSigners())
		}()
		vb := m.ValidateBasic() == nil
		routable := f.c.App.MsgServiceRouter().Handler(m) != nil
		return M{"a": "msgtype", "t": url, "creator": creator, "signers": signers, "routable": routable, "vb": vb, "naddr": int64(len(fields)), "ok": true}
	case "deliver":
		if m.ValidateBasic() != nil {
			return nil
		}
		var signers []*chain.Acct
		named := "s1"
		if len(fields) < 2 {
			named = "s4"
		}
		switch gets(st, "set") {
		case "creator":
			signers = []*chain.Acct{f.c.Acct("s0")}
		case "other":
			signers = []*chain.Acct{f.c.Acct("s4")}
		case "both":
			signers = []*chain.Acct{f.c.Acct("s0"), f.c.Acct("s4")}
		case "named":
			signers = []*chain.Acct{f.c.Acct(named)}
		}
		r := f.c.Deliver([]sdk.Msg{m}, signers...)
		authFail := false
		for _, ph := range []string{"signature verification failed", "wrong number of signers", "pubKey does not match signer address", "no signatures supplied"} {
			if strings.Contains(r.Log, ph) {
				authFail = true
			}
		}
		sigs := []interface{}{}
		for _, s := range signers {
			sigs = append(sigs, s.Label)
		}
		log := r.Log
		if len(log) > 160 {
			log = log[:160]
		}
		return M{"a": "deliver", "t": url, "creator": creator, "sigs": sigs, "accepted": !authFail, "code": int64(r.Code), "ok": true, "x": M{"log": log}}
	}
	die(2, "auth: unknown action")
	return nil
}

func (f *authFam) Random(rng *rand.Rand) M {
	if len(f.queue) == 0 {
		return nil
	}
	st := f.queue[0]
	f.queue = f.queue[1:]
	return st
}

package main

import (
	"math/rand"
	"sort"
	"strings"

	sdk "github.com/cosmos/cosmos-sdk/types"

	rkeeper "github.com/jackalLabs/canine-chain/v4/x/rns/keeper"
	rtypes "github.com/jackalLabs/canine-chain/v4/x/rns/types"

	"vh/chain"
)

// rnsFam drives x/rns in router mode on cache contexts branched from one funded base state.
type rnsFam struct {
	c      *chain.Chain
	base   sdk.Context
	ctx    sdk.Context
	accts  []string
	names  []string
	denoms []string
	fund   int64
	alias  map[string]string // model free-name -> chain-chosen name
	rng    *rand.Rand
	datas  []string
	recs   []string
}

func init() { families["rns"] = func() Family { return &rnsFam{} } }

func (f *rnsFam) Reseed(r *rand.Rand) { f.rng = r }

func strs(l []interface{}, def []string) []string {
	if len(l) == 0 {
		return def
	}
	out := make([]string, len(l))
	for i, v := range l {
		out[i] = v.(string)
	}
	return out
}

func (f *rnsFam) Setup(cfg M, rng *rand.Rand) {
	f.rng = rng
	f.accts = strs(getl(cfg, "accts"), []string{"a", "b", "c"})
	f.names = strs(getl(cfg, "names"), []string{"alpha.jkl", "ab.ibc", "beta.jkl", "alpha.ibc"})
	f.denoms = []string{"ujkl", "uusd"}
	f.datas = []string{"{}", "{\"k\":1}"}
	f.recs = []string{"r1", "r2"}
	f.fund = geti(cfg, "fund")
	if f.fund == 0 {
		f.fund = 400_000_000
	}
	f.c = chain.New()
	for _, l := range f.accts {
		a := f.c.Acct(l)
		fund := f.fund
		if l == f.accts[len(f.accts)-1] && len(f.accts) > 2 {
			// the last account is poor: it can bid small amounts but cannot afford any registration (the cheapest costs 10M),
			// while the others' bids can put more than that into the escrow
			fund = 8_000_000
		}
		f.c.Fund(f.c.Ctx, a.Addr, sdk.NewCoins(sdk.NewInt64Coin("ujkl", fund), sdk.NewInt64Coin("uusd", f.fund)))
	}
	f.base = f.c.Ctx
}

func (f *rnsFam) Reset() M {
	f.ctx, _ = f.base.CacheContext()
	f.alias = map[string]string{}
	return f.Project()
}

func nameInfo(n string) (int64, string) {
	i := strings.LastIndex(n, ".")
	if i < 0 {
		return int64(len(n)), ""
	}
	return int64(i), n[i+1:]
}

// spell returns a spelling of the (lower-case) name with random case in the label part.
func (f *rnsFam) spell(n string) string {
	if f.rng.Intn(4) != 0 {
		return n
	}
	i := strings.LastIndex(n, ".")
	if i < 0 {
		return n
	}
	b := []byte(n)
	for j := 0; j < i; j++ {
		if f.rng.Intn(2) == 0 {
			b[j] = strings.ToUpper(string(b[j]))[0]
		}
	}
	return string(b)
}

func coinOf(p M) sdk.Coin {
	return sdk.Coin{Denom: gets(p, "d"), Amount: sdk.NewInt(geti(p, "amt"))}
}

func (f *rnsFam) real(n string) string {
	if r, ok := f.alias[n]; ok {
		return r
	}
	return n
}

func (f *rnsFam) Apply(st M) M {
	a := gets(st, "a")
	ev := M{}
	for k, v := range st {
		if k != "ok" {
			ev[k] = v
		}
	}
	var who *chain.Acct
	if s := gets(st, "s"); s != "" {
		who = f.c.Acct(s)
	}
	n := f.real(gets(st, "n"))
	if _, has := st["n"]; has {
		ev["n"] = n
	}
	var msg sdk.Msg
	switch a {
	case "jump":
		h := geti(st, "h")
		if h <= f.ctx.BlockHeight() {
			return nil
		}
		f.ctx = f.ctx.WithBlockHeight(h)
		ev["ok"] = true
		return ev
	case "register":
		l, tld := nameInfo(n)
		ev["len"], ev["tld"] = l, tld
		// the chain's own yearly price for this name (exported tariff function): an input of the property
		yp := int64(-1)
		func() {
			defer func() { recover() }()
			if i := strings.LastIndex(n, "."); i > 0 {
				if c, err := rkeeper.GetCostOfName(n[:i], tld); err == nil {
					yp = c
				}
			}
		}()
		ev["yp"] = yp
		ev["base"] = rtypes.TLDCost[tld] // the listed per-TLD base price (exported table); not part of the label
		msg = &rtypes.MsgRegisterName{Creator: who.S(), Name: f.spell(n), Years: geti(st, "y"), Data: gets(st, "data"), SetPrimary: getb(st, "prim")}
	case "list":
		msg = &rtypes.MsgList{Creator: who.S(), Name: f.spell(n), Price: coinOf(getm(st, "p"))}
	case "delist":
		msg = &rtypes.MsgDelist{Creator: who.S(), Name: f.spell(n)}
	case "buy":
		msg = &rtypes.MsgBuy{Creator: who.S(), Name: f.spell(n)}
	case "bid":
		msg = &rtypes.MsgBid{Creator: who.S(), Name: f.spell(n), Bid: coinOf(getm(st, "p"))}
	case "cancel":
		msg = &rtypes.MsgCancelBid{Creator: who.S(), Name: f.spell(n)}
	case "accept":
		msg = &rtypes.MsgAcceptBid{Creator: who.S(), Name: f.spell(n), From: f.c.Acct(gets(st, "b")).S()}
	case "transfer":
		msg = &rtypes.MsgTransfer{Creator: who.S(), Name: f.spell(n), Receiver: f.c.Acct(gets(st, "r")).S()}
	case "update":
		msg = &rtypes.MsgUpdate{Creator: who.S(), Name: f.spell(n), Data: gets(st, "data")}
	case "addrec":
		msg = &rtypes.MsgAddRecord{Creator: who.S(), Name: f.spell(n), Value: who.S(), Data: "{}", Record: gets(st, "r")}
	case "delrec":
		msg = &rtypes.MsgDelRecord{Creator: who.S(), Name: gets(st, "r") + "." + f.spell(n)}
	case "makeprimary":
		msg = &rtypes.MsgMakePrimary{Creator: who.S(), Name: f.spell(n)}
	case "initfree":
		before := map[string]bool{}
		for _, x := range f.c.App.RnsKeeper.GetAllNames(f.ctx) {
			before[x.Name+"."+x.Tld] = true
		}
		_, err := f.c.Msg(f.ctx, &rtypes.MsgInit{Creator: who.S()})
		ev["ok"] = err == nil
		// the chain chooses the name; learn it (on refusal: the name it would have used)
		chosen := rtypes.MakeName(int(f.ctx.BlockHeight()), f.ctx.BlockHeight()) + ".jkl"
		if err == nil {
			for _, x := range f.c.App.RnsKeeper.GetAllNames(f.ctx) {
				if !before[x.Name+"."+x.Tld] {
					chosen = x.Name + "." + x.Tld
				}
			}
		}
		f.alias[gets(st, "n")] = chosen
		ev["n"] = chosen
		if err != nil {
			ev["x"] = err.Error()
		}
		return ev
	default:
		die(2, "rns: unknown action %q", a)
	}
	_, err := f.c.Msg(f.ctx, msg)
	ev["ok"] = err == nil
	if err != nil {
		ev["x"] = err.Error()
	}
	return ev
}

func (f *rnsFam) Project() M {
	k := f.c.App.RnsKeeper
	names := M{}
	for _, x := range k.GetAllNames(f.ctx) {
		recs := []interface{}{}
		for _, sd := range x.Subdomains {
			recs = append(recs, sd.Name)
		}
		names[x.Name+"."+x.Tld] = M{"owner": f.c.LabelOf(x.Value), "exp": x.Expires, "locked": x.Locked, "data": x.Data, "recs": recs}
	}
	sale := M{}
	for _, s := range k.GetAllForsale(f.ctx) {
		c, err := sdk.ParseCoinNormalized(s.Price)
		p := M{"d": "?", "amt": int64(0)}
		if err == nil {
			p = M{"d": c.Denom, "amt": c.Amount.Int64()}
		}
		sale[s.Name] = M{"lister": f.c.LabelOf(s.Owner), "price": p}
	}
	bids := []interface{}{}
	for _, b := range k.GetAllBids(f.ctx) {
		cs, err := sdk.ParseCoinsNormalized(b.Price)
		p := M{"d": "?", "amt": int64(0)}
		if err == nil && len(cs) == 1 {
			p = M{"d": cs[0].Denom, "amt": cs[0].Amount.Int64()}
		}
		bids = append(bids, M{"b": f.c.LabelOf(b.Bidder), "n": b.Name, "p": p})
	}
	sort.Slice(bids, func(i, j int) bool {
		x, y := bids[i].(M), bids[j].(M)
		return x["b"].(string)+"|"+x["n"].(string) < y["b"].(string)+"|"+y["n"].(string)
	})
	primary := M{}
	inited := []interface{}{}
	for _, l := range chain.SortedKeys(f.c.Accts) {
		a := f.c.Accts[l]
		if pn, ok := rawPrimary(f, a.S()); ok {
			primary[l] = pn
		}
		if _, ok := k.GetInit(f.ctx, a.S()); ok {
			inited = append(inited, l)
		}
	}
	keep := map[string]bool{"m:rns": true, "pol": true}
	for _, l := range f.accts {
		keep[l] = true
	}
	for l := range f.c.Accts {
		keep[l] = true
	}
	all := f.c.Balances(f.ctx, f.denoms)
	bal := M{}
	other := M{}
	for _, d := range f.denoms {
		other[d] = int64(0)
	}
	for l, m := range all {
		if keep[l] {
			mm := M{}
			for d, v := range m {
				mm[d] = v
			}
			bal[l] = mm
		} else {
			for d, v := range m {
				other[d] = other[d].(int64) + v
			}
		}
	}
	bal["other"] = other
	return M{"names": names, "sale": sale, "bids": bids, "primary": primary, "inited": inited, "bal": bal, "height": f.ctx.BlockHeight()}
}

// rawPrimary reads the stored primary-name string of an owner (the keeper getter resolves it to
// a Names record and hides dangling entries).
func rawPrimary(f *rnsFam, owner string) (string, bool) {
	st := f.ctx.KVStore(f.c.Key(rtypes.StoreKey))
	b := st.Get(append(rtypes.KeyPrefix(rtypes.PrimaryNameKeyPrefix), rtypes.PrimaryNameKey(owner)...))
	if b == nil {
		return "", false
	}
	return string(b), true
}

func (f *rnsFam) Random(rng *rand.Rand) M {
	acc := func() string { return f.accts[rng.Intn(len(f.accts))] }
	nm := func() string { return f.names[rng.Intn(len(f.names))] }
	price := func() M {
		d := "ujkl"
		if rng.Intn(4) == 0 {
			d = "uusd"
		}
		return M{"d": d, "amt": int64([]int{1, 7, 500, 777, 1000000, 30000000}[rng.Intn(6)])}
	}
	k := f.c.App.RnsKeeper
	all := k.GetAllNames(f.ctx)
	// bias: prefer names that exist for owner-ish actions
	exist := func() (string, string) {
		if len(all) == 0 || rng.Intn(5) == 0 {
			return nm(), acc()
		}
		x := all[rng.Intn(len(all))]
		o := f.c.LabelOf(x.Value)
		if rng.Intn(3) == 0 || strings.HasPrefix(o, "?") {
			o = acc()
		}
		return x.Name + "." + x.Tld, o
	}
	switch r := rng.Intn(100); {
	case r < 14:
		return M{"a": "register", "s": acc(), "n": nm(), "y": int64([]int{1, 1, 2, 3, 0}[rng.Intn(5)]), "data": f.datas[rng.Intn(2)], "prim": rng.Intn(2) == 0}
	case r < 24:
		n, o := exist()
		return M{"a": "list", "s": o, "n": n, "p": price()}
	case r < 30:
		n, o := exist()
		return M{"a": "delist", "s": o, "n": n}
	case r < 42:
		n, _ := exist()
		return M{"a": "buy", "s": acc(), "n": n}
	case r < 54:
		n, _ := exist()
		return M{"a": "bid", "s": acc(), "n": n, "p": price()}
	case r < 60:
		n, _ := exist()
		return M{"a": "cancel", "s": acc(), "n": n}
	case r < 70:
		n, o := exist()
		return M{"a": "accept", "s": o, "n": n, "b": acc()}
	case r < 78:
		n, o := exist()
		return M{"a": "transfer", "s": o, "n": n, "r": acc()}
	case r < 82:
		n, o := exist()
		return M{"a": "update", "s": o, "n": n, "data": f.datas[rng.Intn(2)]}
	case r < 86:
		n, o := exist()
		return M{"a": "addrec", "s": o, "n": n, "r": f.recs[rng.Intn(2)]}
	case r < 90:
		// half of the time: an existing record, deleted by the account its value names (after a transfer that is no longer the owner)
		var withRecs []int
		for i, x := range all {
			if len(x.Subdomains) > 0 {
				withRecs = append(withRecs, i)
			}
		}
		if len(withRecs) > 0 && rng.Intn(2) == 0 {
			x := all[withRecs[rng.Intn(len(withRecs))]]
			sub := x.Subdomains[rng.Intn(len(x.Subdomains))]
			if who := f.c.LabelOf(sub.Value); !strings.HasPrefix(who, "?") {
				return M{"a": "delrec", "s": who, "n": x.Name + "." + x.Tld, "r": sub.Name}
			}
		}
		n, o := exist()
		return M{"a": "delrec", "s": o, "n": n, "r": f.recs[rng.Intn(2)]}
	case r < 91:
		return M{"a": "makeprimary", "s": acc(), "n": nm()}
	case r < 93:
		return M{"a": "initfree", "s": acc(), "n": "freeone.jkl"}
	default:
		h := f.ctx.BlockHeight()
		t := []int64{h + 1}
		for _, x := range all {
			for _, c := range []int64{x.Expires - 1, x.Expires, x.Expires + 1, x.Locked, x.Locked + 1} {
				if c > h {
					t = append(t, c)
				}
			}
		}
		return M{"a": "jump", "h": t[rng.Intn(len(t))]}
	}
}

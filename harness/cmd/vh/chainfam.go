package main

import (
	"crypto/sha256"
	"encoding/hex"
	"fmt"
	"math"
	"math/rand"
	"os"
	"strings"

	sdk "github.com/cosmos/cosmos-sdk/types"
	abci "github.com/tendermint/tendermint/abci/types"

	"github.com/jackalLabs/canine-chain/v4/app"
	fttypes "github.com/jackalLabs/canine-chain/v4/x/filetree/types"
	mkeeper "github.com/jackalLabs/canine-chain/v4/x/jklmint/keeper"
	mtypes "github.com/jackalLabs/canine-chain/v4/x/jklmint/types"
	ntypes "github.com/jackalLabs/canine-chain/v4/x/notifications/types"
	otypes "github.com/jackalLabs/canine-chain/v4/x/oracle/types"
	rtypes "github.com/jackalLabs/canine-chain/v4/x/rns/types"
	stypes "github.com/jackalLabs/canine-chain/v4/x/storage/types"

	"vh/chain"
)

// chainFam drives the assembled application through ABCI only: signed DeliverTx (real ante handler),
// BeginBlock / EndBlock / Commit. Every scenario is a fresh chain. It records, per transaction, the result
// code, gas and a digest of the emitted events, and per block the panic flag and the app hash.
type chainFam struct {
	c       *chain.Chain
	rng     *rand.Rand
	labels  []string
	script  []sdk.Msg
	files   []*tfile
	halted  bool
	simNode bool       // VH_SIMULATE=1: this execution also simulates foreign transactions (second node of the C06 pair)
	simRng  *rand.Rand // generator of the simulated transactions (separate from the history's)
	dead    string     // non-empty: the application panicked while starting (InitChain / first block)
	types   []string
	// ledger mode (spec/Ledger.tla): project class balances and obligations after every step
	ledger   bool
	lgAddr   map[string]string
	lgUsers  map[string]bool
	lgGauge  map[string]bool
	lgBase   *lgSnap
	lgPrev   *lgSnap
	lgBig    bool
	richColl bool // this scenario runs with a collateral price above 2^31
	nreg     int
}

func init() { families["chain"] = func() Family { return &chainFam{} } }

func (f *chainFam) Reseed(r *rand.Rand) { f.rng = r }

func (f *chainFam) Setup(cfg M, rng *rand.Rand) {
	f.rng = rng
	f.labels = []string{"a", "b", "c", "p1", "p2", "p3", "p4"}
	f.ledger = getb(cfg, "ledger")
	f.simNode = os.Getenv("VH_SIMULATE") == "1"
	f.simRng = rand.New(rand.NewSource(7))
}

func smallParams(gs app.GenesisState, a *app.JackalApp) {
	var sg stypes.GenesisState
	a.AppCodec().MustUnmarshalJSON(gs["storage"], &sg)
	sg.Params.ProofWindow, sg.Params.CheckWindow, sg.Params.ChunkSize = 3, 4, 2
	sg.Params.AttestFormSize, sg.Params.AttestMinToPass = 2, 2
	sg.Params.MissesToBurn = 1
	sg.Params.CollateralPrice = 1000
	gs["storage"] = a.AppCodec().MustMarshalJSON(&sg)
	var og otypes.GenesisState
	a.AppCodec().MustUnmarshalJSON(gs["oracle"], &og)
	og.Params.Deposit = chain.NewAcct("oracle-deposit").S()
	gs["oracle"] = a.AppCodec().MustMarshalJSON(&og)
}

func (f *chainFam) Reset() M {
	if f.c != nil {
		f.c.Close()
	}
	// an application that cannot process its own genesis and first block is a halted chain (C05) before any transaction
	f.dead = ""
	func() {
		defer func() {
			if p := recover(); p != nil {
				f.dead = fmt.Sprint(p)
			}
		}()
		muts := []chain.GenMut{smallParams}
		if f.rng.Intn(4) == 0 { // governance-set emission at the top of the int64 range (valid parameters: only >= 0 is required)
			tpbs := []int64{100_000_000_000_000_000, 200_000_000_000_000_000, 300_000_000_000_000_000, 500_000_000_000_000_000,
				700_000_000_000_000_000, 1_200_000_000_000_000_000, math.MaxInt64 / 50, math.MaxInt64 / 2, math.MaxInt64}
			tpb := tpbs[f.rng.Intn(len(tpbs))]
			muts = append(muts, func(gs app.GenesisState, a *app.JackalApp) {
				var mg mtypes.GenesisState
				a.AppCodec().MustUnmarshalJSON(gs["jklmint"], &mg)
				mg.Params.TokensPerBlock = tpb
				gs["jklmint"] = a.AppCodec().MustMarshalJSON(&mg)
			})
		}
		f.richColl = f.rng.Intn(6) == 0
		if f.richColl { // a collateral price far above 2^31 (set by governance), providers funded accordingly
			muts = append(muts, func(gs app.GenesisState, a *app.JackalApp) {
				var sg stypes.GenesisState
				a.AppCodec().MustUnmarshalJSON(gs["storage"], &sg)
				sg.Params.CollateralPrice = 2_000_000_000_000
				gs["storage"] = a.AppCodec().MustMarshalJSON(&sg)
			})
		}
		if f.rng.Intn(5) == 0 { // the stipend parameter names an account that already receives a share: the dev-grants pool
			muts = append(muts, func(gs app.GenesisState, a *app.JackalApp) {
				var mg mtypes.GenesisState
				a.AppCodec().MustUnmarshalJSON(gs["jklmint"], &mg)
				if dev, err := mkeeper.GetDevGrantsAccount(); err == nil {
					mg.Params.StorageStipendAddress = dev.String()
				}
				gs["jklmint"] = a.AppCodec().MustMarshalJSON(&mg)
			})
		}
		f.c = chain.New(muts...)
	}()
	if f.dead != "" {
		f.c = nil
		f.halted = false
		return M{"big": true, "split": M{"rs": int64(0), "rd": int64(0), "rp": int64(0), "rem": int64(0), "collres": int64(0)}}
	}
	f.c.Step = 24 * 3600 * 1e9
	f.halted = false
	c := f.c
	for _, l := range f.labels {
		c.Fund(c.Ctx, c.Acct(l).Addr, sdk.NewCoins(sdk.NewInt64Coin("ujkl", 500_000_000), sdk.NewInt64Coin("uusd", 1_000_000)))
		if f.richColl && strings.HasPrefix(l, "p") {
			c.Fund(c.Ctx, c.Acct(l).Addr, sdk.NewCoins(sdk.NewInt64Coin("ujkl", 9_000_000_000_000)))
		}
	}
	f.types = customMsgTypes(c.App)
	a, b, cc := c.Acct("a"), c.Acct("b"), c.Acct("c")
	f.files = nil
	for i, m := range []string{"m1", "m2", "m3"} {
		f.files = append(f.files, mkfile(m, []byte(strings.Repeat(m, 2+i)), 2))
	}
	ed := fmt.Sprintf("{\"%s\":\"k\"}", editorID("t", a.S()))
	s := []sdk.Msg{
		&otypes.MsgCreateFeed{Creator: a.S(), Name: "jklprice"},
		&otypes.MsgUpdateFeed{Creator: a.S(), Name: "jklprice", Data: `{"price":"0.25","24h_change":"0"}`},
		&stypes.MsgBuyStorage{Creator: a.S(), ForAddress: a.S(), DurationDays: 60, Bytes: 5_000_000_000, PaymentDenom: "ujkl"},
		&stypes.MsgBuyStorage{Creator: b.S(), ForAddress: b.S(), DurationDays: 30, Bytes: 2_000_000_000, PaymentDenom: "ujkl", Referral: a.S()},
	}
	doms := []string{"d1", "d2", "d3", "d1"}
	for i, p := range []string{"p1", "p2", "p3", "p4"} {
		s = append(s, &stypes.MsgInitProvider{Creator: c.Acct(p).S(), Ip: domURL(p, doms[i]), Keybase: "kb", TotalSpace: 1_000_000})
	}
	for _, t := range f.files {
		s = append(s, &stypes.MsgPostFile{Creator: a.S(), Merkle: t.root, FileSize: int64(len(t.data)), MaxProofs: 3, Note: "{}"})
	}
	s = append(s,
		&rtypes.MsgRegisterName{Creator: a.S(), Name: "alpha.jkl", Years: 1, Data: "{}", SetPrimary: true},
		&rtypes.MsgRegisterName{Creator: b.S(), Name: "beta.jkl", Years: 2, Data: "{}"},
		&rtypes.MsgList{Creator: a.S(), Name: "alpha.jkl", Price: sdk.NewInt64Coin("ujkl", 777)},
		&rtypes.MsgBid{Creator: cc.S(), Name: "beta.jkl", Bid: sdk.NewInt64Coin("ujkl", 55)},
		&fttypes.MsgPostKey{Creator: a.S(), Key: "pubkey-a"},
		&fttypes.MsgProvisionFileTree{Creator: a.S(), Viewers: "{}", Editors: ed, TrackingNumber: "t"},
		&fttypes.MsgPostFile{Creator: a.S(), Account: hx(a.S()), HashParent: fttypes.MerklePath("s"), HashChild: hx("c"), Contents: "x", Viewers: "{}", Editors: ed, TrackingNumber: "t"},
		&ntypes.MsgCreateNotification{Creator: a.S(), To: b.S(), Contents: `{"n":1}`},
		&ntypes.MsgBlockSenders{Creator: a.S(), ToBlock: []string{cc.S()}},
	)
	f.script = s
	if f.rng.Intn(5) == 0 { // "whale" history: the feed owner pumps the price, then maximal plans and maximal files
		w := []sdk.Msg{
			&otypes.MsgCreateFeed{Creator: a.S(), Name: "jklprice"},
			&otypes.MsgUpdateFeed{Creator: a.S(), Name: "jklprice", Data: `{"price":"10000000000.0","24h_change":"0"}`},
		}
		big := []int64{math.MaxInt64, math.MaxInt64, math.MaxInt64/2 + 1, 1 << 62}
		for i, who := range []*chain.Acct{a, b, cc} {
			sz := big[f.rng.Intn(len(big))]
			w = append(w, &stypes.MsgBuyStorage{Creator: who.S(), ForAddress: who.S(), DurationDays: 30, Bytes: sz, PaymentDenom: "ujkl"})
			w = append(w, &stypes.MsgPostFile{Creator: who.S(), Merkle: f.files[i%len(f.files)].root, FileSize: sz, MaxProofs: 1, Note: "{}"})
		}
		// a tiny file with an enormous replication count (the product still fits the maximal plan)
		w = append(w, &stypes.MsgPostFile{Creator: a.S(), Merkle: f.files[2].root, FileSize: 1, MaxProofs: []int64{1 << 45, 1 << 55}[f.rng.Intn(2)], Note: "{}"})
		for i, p := range []string{"p1", "p2", "p3", "p4"} {
			w = append(w, &stypes.MsgInitProvider{Creator: c.Acct(p).S(), Ip: domURL(p, doms[i]), Keybase: "kb", TotalSpace: 1_000_000})
		}
		f.script = w
	}
	if f.ledger {
		f.lgInit()
		f.lgBig = false
		f.lgBase = f.lgTake()
		f.lgPrev = nil
	}
	return f.Project()
}

func (f *chainFam) Project() M {
	if !f.ledger {
		return M{}
	}
	if f.c == nil {
		return M{"big": true, "split": M{"rs": int64(0), "rd": int64(0), "rp": int64(0), "rem": int64(0), "collres": int64(0)}}
	}
	return f.lgProject(f.lgTake())
}

func evDigest(evs []abci.Event) string {
	h := sha256.New()
	for _, e := range evs {
		h.Write([]byte(e.Type))
		h.Write([]byte{0})
		for _, a := range e.Attributes {
			h.Write(a.Key)
			h.Write([]byte{1})
			h.Write(a.Value)
			h.Write([]byte{2})
		}
	}
	return hex.EncodeToString(h.Sum(nil))[:16]
}

func (f *chainFam) signerOf(m sdk.Msg) *chain.Acct {
	ss := m.GetSigners()
	if len(ss) != 1 {
		return nil
	}
	for _, l := range f.labels {
		if f.c.Acct(l).Addr.Equals(ss[0]) {
			return f.c.Acct(l)
		}
	}
	return nil
}

func (f *chainFam) signerOf2(m sdk.Msg) (a *chain.Acct) {
	defer func() { recover() }()
	return f.signerOf(m)
}

func (f *chainFam) deliver(m sdk.Msg) M {
	var signer *chain.Acct
	func() {
		defer func() { recover() }()
		signer = f.signerOf(m)
	}()
	if signer == nil {
		return nil
	}
	if func() (bad bool) {
		defer func() {
			if recover() != nil {
				bad = true
			}
		}()
		return m.ValidateBasic() != nil
	}() {
		return nil
	}
	if f.simNode {
		// this node also serves simulation requests: before every delivered transaction it simulates another plausible one
		// (drawn from a generator of its own, so that the delivered history is the same on both nodes). Simulation runs on a
		// throw-away branch of the state and must leave no trace.
		save, nreg, omit := f.rng, f.nreg, omitZeroIndex
		f.rng = f.simRng
		m2 := f.flow()
		if f.rng.Intn(3) == 0 { // or a proof of some chunk of some file by some provider
			t := f.files[f.rng.Intn(len(f.files))]
			if item, hl, ok := t.proof(int64(f.rng.Intn(len(t.chunks)))); ok {
				m2 = &stypes.MsgPostProof{Creator: f.c.Acct([]string{"p1", "p2", "p3", "p4"}[f.rng.Intn(4)]).S(), Item: item, HashList: hl,
					Merkle: t.root, Owner: f.c.Acct("a").S(), Start: f.c.H, ToProve: int64(f.rng.Intn(len(t.chunks)))}
			}
		}
		f.rng, f.nreg, omitZeroIndex = save, nreg, omit
		if s2 := f.signerOf2(m2); s2 != nil {
			f.c.SimulateOnly = true
			f.c.Deliver([]sdk.Msg{m2}, s2)
			f.c.SimulateOnly = false
		}
	}
	r := f.c.Deliver([]sdk.Msg{m}, signer)
	ms := fmt.Sprint(m)
	if len(ms) > 300 {
		ms = ms[:300]
	}
	ev := M{"a": "tx", "t": sdk.MsgTypeURL(m), "code": int64(r.Code), "cs": r.Codespace, "gas": r.GasUsed, "ev": evDigest(r.Events), "ok": r.Code == 0, "x": M{"msg": ms}}
	if f.ledger {
		ev["den"], ev["amt"] = coinOfMsg(m)
		ev["signer"] = f.c.LabelOf(signer.S())
	}
	return ev
}

// spelled returns the address as is or, every third time, in the all-upper-case bech32 spelling (equally valid, same account)
func (f *chainFam) spelled(addr string) string {
	if f.rng.Intn(3) == 0 {
		return strings.ToUpper(addr)
	}
	return addr
}

// flow builds a plausible token-moving message of the custom modules (ledger mode): bids, cancellations,
// acceptances, purchases and registrations of names, provider collateral in and out, plan purchases with and
// without referral, files paid one by one.
func (f *chainFam) flow() sdk.Msg {
	r := f.rng
	pick := func(xs ...string) string { return xs[r.Intn(len(xs))] }
	who := func(xs ...string) string { return f.c.Acct(pick(xs...)).S() }
	names := []string{"alpha.jkl", "beta.jkl", "BETA.jkl", "Alpha.jkl", "gamma.jkl"}
	coin := func() sdk.Coin {
		return sdk.NewInt64Coin(pick("ujkl", "ujkl", "uusd"), []int64{1, 55, 1000, 12345, 400_000}[r.Intn(5)])
	}
	switch r.Intn(14) {
	case 13: // a block list with several entries, by address and by name
		ents := []string{who("a", "b", "c"), who("p1", "p2"), "alpha.jkl", who("p3", "p4", "c"), "beta.jkl"}
		r.Shuffle(len(ents), func(i, j int) { ents[i], ents[j] = ents[j], ents[i] })
		return &ntypes.MsgBlockSenders{Creator: who("a", "b", "c"), ToBlock: ents[:2+r.Intn(3)]}
	case 12:
		return &otypes.MsgUpdateFeed{Creator: f.c.Acct("a").S(), Name: "jklprice", Data: fmt.Sprintf(`{"price":"%s","24h_change":"0"}`, pick("0.25", "0.5", "0.125", "1.0"))}
	case 0, 1:
		return &rtypes.MsgBid{Creator: f.spelled(who("a", "b", "c", "p1")), Name: pick(names...), Bid: coin()}
	case 2:
		return &rtypes.MsgCancelBid{Creator: f.spelled(who("a", "b", "c", "p1")), Name: pick(names...)}
	case 3:
		return &rtypes.MsgAcceptBid{Creator: f.spelled(who("a", "b", "c")), Name: pick(names...), From: f.spelled(who("a", "b", "c", "p1"))}
	case 4:
		if r.Intn(2) == 0 {
			return &rtypes.MsgList{Creator: who("a", "b", "c"), Name: pick(names...), Price: coin()}
		}
		return &rtypes.MsgBuy{Creator: who("a", "b", "c", "p1"), Name: pick(names...)}
	case 5:
		f.nreg++
		n := []string{"gamma.jkl", "d.jkl", "ab.ibc", "wxyz.jkl", "x" + fmt.Sprint(f.nreg) + ".jkl"}[r.Intn(5)]
		return &rtypes.MsgRegisterName{Creator: who("a", "b", "c"), Name: n, Years: int64(1 + r.Intn(2)), Data: "{}"}
	case 6:
		p := pick("p1", "p2", "p3", "p4", "c")
		return &stypes.MsgInitProvider{Creator: f.spelled(f.c.Acct(p).S()), Ip: domURL(p, "d"+fmt.Sprint(1+r.Intn(3))), Keybase: "kb", TotalSpace: 1_000_000}
	case 7:
		return &stypes.MsgShutdownProvider{Creator: f.spelled(who("p1", "p2", "p3", "p4", "c"))}
	case 8, 9:
		m := &stypes.MsgBuyStorage{Creator: who("a", "b", "c"), ForAddress: who("a", "b", "c"), DurationDays: []int64{30, 60, 366, 720}[r.Intn(4)],
			Bytes: []int64{1_000_000_000, 3_000_000_000, 6_000_000_000}[r.Intn(3)], PaymentDenom: "ujkl"}
		if r.Intn(2) == 0 {
			refs := []string{f.c.Acct("a").S(), f.c.Acct("p1").S(), "alpha.jkl", "beta.jkl"}
			// any bech32 address is accepted as referral: also the escrow account of a live gauge
			for _, g := range f.c.App.StorageKeeper.GetAllPaymentGauges(f.c.Ctx) {
				if a, err := stypes.GetGaugeAccount(g); err == nil {
					refs = append(refs, a.String())
					break
				}
			}
			m.Referral = pick(refs...)
		}
		return m
	default:
		t := f.files[r.Intn(len(f.files))]
		m := &stypes.MsgPostFile{Creator: who("c", "p1", "a"), Merkle: t.root, FileSize: int64(len(t.data)), MaxProofs: 3, Note: "{}"}
		if r.Intn(2) == 0 {
			m.Expires = f.c.H + int64([]int{200, 14400, 3 * 14400}[r.Intn(3)])
		}
		return m
	}
}

func (f *chainFam) Apply(st M) M {
	if f.halted {
		return nil
	}
	if f.dead != "" {
		f.halted = true
		return M{"a": "block", "h": int64(1), "panic": true, "hash": "", "ev": "", "ok": false, "x": M{"panic": "application start: " + f.dead}}
	}
	switch gets(st, "a") {
	case "script":
		if len(f.script) == 0 {
			return nil
		}
		m := f.script[0]
		f.script = f.script[1:]
		return f.deliver(m)
	case "adv":
		url := f.types[f.rng.Intn(len(f.types))]
		m := newMsg(f.c.App, url)
		var addrs []string
		for _, l := range f.labels {
			addrs = append(addrs, f.c.Acct(l).S())
		}
		var roots [][]byte
		for _, t := range f.files {
			roots = append(roots, t.root)
		}
		fillMsg(m, advPicker(f.rng, addrs, roots))
		return f.deliver(m)
	case "flow":
		return f.deliver(f.flow())
	case "advfile": // boundary sizes / replication on a file that provers can then join
		a := f.c.Acct([]string{"a", "b", "c"}[f.rng.Intn(3)])
		t := f.files[f.rng.Intn(len(f.files))]
		sizes := []int64{0, -1, 1, 3, 1 << 62, math.MinInt64, math.MaxInt64, math.MaxInt64, math.MaxInt64 - 7, math.MaxInt64/2 + 1, math.MaxInt64 / 3}
		msg := &stypes.MsgPostFile{Creator: a.S(), Merkle: t.root, FileSize: sizes[f.rng.Intn(len(sizes))], MaxProofs: []int64{1, 1, 1, 2, 3, 0, -1, 1 << 45, 1 << 55}[f.rng.Intn(9)], Note: "{}"}
		if msg.MaxProofs > 1<<40 { // huge replication of a tiny file (the product still fits the whale plans)
			msg.FileSize = []int64{1, 3}[f.rng.Intn(2)]
		}
		if f.rng.Intn(6) == 0 { // a merkle root of unusual length (nothing constrains it): nobody can prove such a file, it is dropped later
			msg.Merkle = [][]byte{{}, {7}, {1, 2, 3}, {1, 2, 3, 4, 5, 6, 7}, t.root[:31], append(append([]byte{}, t.root...), 9, 9)}[f.rng.Intn(6)]
			msg.FileSize, msg.MaxProofs = 3, 1
		}
		switch f.rng.Intn(6) {
		case 0:
			msg.Expires = f.c.H + int64([]int{14400, 3 * 14400, 1, -5}[f.rng.Intn(4)])
		case 1: // one-time payment of a small file with an extreme expiry (centuries of blocks: time.Duration saturates at ~292 years)
			msg.FileSize = []int64{1, 3, 1000}[f.rng.Intn(3)]
			msg.MaxProofs = int64(1 + f.rng.Intn(3))
			msg.Expires = []int64{1 << 31, 1 << 40, 5_256_000_000, 1_576_800_000, 1_534_000_000, 1 << 62, math.MaxInt64}[f.rng.Intn(7)]
		}
		return f.deliver(msg)
	case "form": // attestation / report forms on real files, requested and signed by real provers
		k := f.c.App.StorageKeeper
		all := k.GetAllFileByMerkle(f.c.Ctx)
		if len(all) == 0 {
			return nil
		}
		uf := all[f.rng.Intn(len(all))]
		if len(uf.Proofs) == 0 {
			return nil
		}
		prover := strings.Split(uf.Proofs[f.rng.Intn(len(uf.Proofs))], "/")[0]
		signer := f.c.Acct([]string{"p1", "p2", "p3", "p4"}[f.rng.Intn(4)]).S()
		switch f.rng.Intn(4) {
		case 0:
			return f.deliver(&stypes.MsgRequestAttestationForm{Creator: prover, Merkle: uf.Merkle, Owner: uf.Owner, Start: uf.Start})
		case 1:
			return f.deliver(&stypes.MsgRequestReportForm{Creator: f.c.Acct("c").S(), Prover: prover, Merkle: uf.Merkle, Owner: uf.Owner, Start: uf.Start})
		case 2:
			return f.deliver(&stypes.MsgAttest{Creator: signer, Prover: prover, Merkle: uf.Merkle, Owner: uf.Owner, Start: uf.Start})
		default:
			return f.deliver(&stypes.MsgReport{Creator: signer, Prover: prover, Merkle: uf.Merkle, Owner: uf.Owner, Start: uf.Start})
		}
	case "prove": // every listed prover proves its current challenge (keeps files alive across reward blocks)
		k := f.c.App.StorageKeeper
		if f.ledger { // one transaction per recorded step: the ledger compares consecutive projections
			var cands []sdk.Msg
			for _, uf := range k.GetAllFileByMerkle(f.c.Ctx) {
				for _, t := range f.files {
					if string(t.root) != string(uf.Merkle) {
						continue
					}
					if len(uf.Proofs) < int(uf.MaxProofs) {
						p := f.c.Acct([]string{"p1", "p2", "p3", "p4"}[f.rng.Intn(4)])
						if item, hl, ok := t.proof(0); ok && !uf.ContainsProver(p.S()) {
							cands = append(cands, &stypes.MsgPostProof{Creator: f.spelled(p.S()), Item: item, HashList: hl, Merkle: t.root, Owner: uf.Owner, Start: uf.Start, ToProve: 0})
						}
					}
					for _, pk := range uf.Proofs {
						if pr, ok := k.GetProofWithBuiltKey(f.c.Ctx, []byte(pk)); ok {
							if item, hl, ok := t.proof(pr.ChunkToProve); ok {
								cands = append(cands, &stypes.MsgPostProof{Creator: pr.Prover, Item: item, HashList: hl, Merkle: t.root, Owner: uf.Owner, Start: uf.Start, ToProve: pr.ChunkToProve})
							}
						}
					}
				}
			}
			if len(cands) == 0 {
				return nil
			}
			return f.deliver(cands[f.rng.Intn(len(cands))])
		}
		var last M
		for _, uf := range k.GetAllFileByMerkle(f.c.Ctx) {
			for _, t := range f.files {
				if string(t.root) != string(uf.Merkle) {
					continue
				}
				if len(uf.Proofs) < int(uf.MaxProofs) && (len(uf.Proofs) == 0 || f.rng.Intn(2) == 0) {
					p := f.c.Acct([]string{"p1", "p2", "p3", "p4"}[f.rng.Intn(4)])
					if item, hl, ok := t.proof(0); ok && !uf.ContainsProver(p.S()) {
						last = f.deliver(&stypes.MsgPostProof{Creator: p.S(), Item: item, HashList: hl, Merkle: t.root, Owner: uf.Owner, Start: uf.Start, ToProve: 0})
					}
				}
				for _, pk := range uf.Proofs {
					pr, ok := k.GetProofWithBuiltKey(f.c.Ctx, []byte(pk))
					if !ok || f.rng.Intn(4) == 0 {
						continue
					}
					if item, hl, ok := t.proof(pr.ChunkToProve); ok {
						last = f.deliver(&stypes.MsgPostProof{Creator: pr.Prover, Item: item, HashList: hl, Merkle: t.root, Owner: uf.Owner, Start: uf.Start, ToProve: pr.ChunkToProve})
					}
				}
			}
		}
		return last
	case "block":
		var pan interface{}
		var hash []byte
		var evs []abci.Event
		func() {
			defer func() {
				if r := recover(); r != nil {
					pan = r
				}
			}()
			res := f.c.App.EndBlock(abci.RequestEndBlock{Height: f.c.H})
			evs = append(evs, res.Events...)
			cm := f.c.App.Commit()
			hash = cm.Data
			f.c.Open = false
		}()
		if pan == nil {
			pan = f.c.Begin()
		}
		ev := M{"a": "block", "h": f.c.H, "panic": pan != nil, "hash": hex.EncodeToString(hash), "ev": evDigest(evs), "ok": pan == nil}
		if pan != nil {
			f.halted = true
			ev["x"] = M{"panic": fmt.Sprint(pan)}
		}
		return ev
	}
	die(2, "chain: unknown action %q", gets(st, "a"))
	return nil
}

func (f *chainFam) Random(rng *rand.Rand) M {
	if len(f.script) > 0 && rng.Intn(5) != 0 {
		return M{"a": "script"}
	}
	if f.ledger {
		switch r := rng.Intn(100); {
		case r < 12:
			return M{"a": "adv"}
		case r < 16:
			return M{"a": "advfile"}
		case r < 22:
			return M{"a": "form"}
		case r < 37:
			return M{"a": "prove"}
		case r < 80:
			return M{"a": "flow"}
		}
		return M{"a": "block"}
	}
	switch r := rng.Intn(100); {
	case r < 8:
		return M{"a": "flow"} // plausible token-moving messages (also used by the ledger family)
	case r < 45:
		return M{"a": "adv"}
	case r < 55:
		return M{"a": "advfile"}
	case r < 65:
		return M{"a": "form"}
	case r < 80:
		return M{"a": "prove"}
	}
	return M{"a": "block"}
}

package main

import (
	"encoding/json"
	"fmt"
	"github.com/cosmos/cosmos-sdk/types/query"
	"math/rand"
	"time"

	sdk "github.com/cosmos/cosmos-sdk/types"

	ntypes "github.com/jackalLabs/canine-chain/v4/x/notifications/types"
	rtypes "github.com/jackalLabs/canine-chain/v4/x/rns/types"

	"vh/chain"
)

// notifFam drives x/notifications; the inbox is observed through the AllNotificationsByAddress query method.
type notifFam struct {
	c     *chain.Chain
	base  sdk.Context
	ctx   sdk.Context
	t0    time.Time
	accts []string
	names map[string]string // name -> label (harness ground truth of the name service)
	nseq  int
	rng   *rand.Rand
}

func init() { families["notif"] = func() Family { return &notifFam{} } }

func (f *notifFam) Reseed(r *rand.Rand) { f.rng = r }

func (f *notifFam) Setup(cfg M, rng *rand.Rand) {
	f.rng = rng
	f.accts = strs(getl(cfg, "accts"), []string{"a", "b", "c"})
	f.c = chain.New()
	for _, l := range f.accts {
		f.c.Acct(l)
	}
	f.base = f.c.Ctx
	f.t0 = f.c.Ctx.BlockTime()
}

func (f *notifFam) setName(n, label string) {
	f.c.App.RnsKeeper.SetNames(f.ctx, rtypes.Names{Name: n[:len(n)-4], Tld: "jkl", Value: f.c.Acct(label).S(), Expires: 2_000_000_000, Data: "{}"})
	f.names[n] = label
}

func (f *notifFam) Reset() M {
	f.ctx, _ = f.base.CacheContext()
	f.names = map[string]string{}
	f.nseq = 0
	f.setName("n1.jkl", f.accts[0])
	f.setName("n2.jkl", f.accts[1])
	return f.Project()
}

func (f *notifFam) target(t string) string {
	for _, l := range f.accts {
		if l == t {
			return f.c.Acct(l).S()
		}
	}
	return t // a name (known or not)
}

func (f *notifFam) tickOf(micro int64) int64 {
	if micro == 0 {
		return 0
	}
	return (micro-f.t0.UnixMicro())/1_000_000 + 1
}

func (f *notifFam) Apply(st M) M {
	a := gets(st, "a")
	ev := M{}
	for k, v := range st {
		if k != "ok" {
			ev[k] = v
		}
	}
	x := M{}
	ev["x"] = x
	var msg sdk.Msg
	switch a {
	case "tick":
		f.ctx = f.ctx.WithBlockTime(f.ctx.BlockTime().Add(time.Second))
		return M{"a": "tick", "ok": true}
	case "repoint":
		f.setName(gets(st, "n"), gets(st, "to"))
		ev["ok"] = true
		return ev
	case "create":
		c := gets(st, "c")
		if c == "" {
			f.nseq++
			c = fmt.Sprintf("c%d", f.nseq)
			ev["c"] = c
		}
		msg = &ntypes.MsgCreateNotification{Creator: f.c.Acct(gets(st, "s")).S(), To: f.target(gets(st, "to")), Contents: notifBody(c)}
	case "delete":
		t := geti(st, "t")
		micro := int64(0)
		if t != 0 {
			micro = f.t0.UnixMicro() + (t-1)*1_000_000
		}
		msg = &ntypes.MsgDeleteNotification{Creator: f.c.Acct(gets(st, "s")).S(), From: f.c.Acct(gets(st, "from")).S(), Time: micro}
	case "block":
		var tb []string
		for _, t := range seqOf(st, "targets") {
			tb = append(tb, f.target(t))
		}
		msg = &ntypes.MsgBlockSenders{Creator: f.c.Acct(gets(st, "s")).S(), ToBlock: tb}
	default:
		die(2, "notif: unknown action %q", a)
	}
	_, err := f.c.Msg(f.ctx, msg)
	if err != nil && len(err.Error()) > 14 && err.Error()[:14] == "validatebasic:" {
		return nil
	}
	ev["ok"] = err == nil
	if err != nil {
		x["err"] = err.Error()
	}
	return ev
}

// notifBody is the exact JSON text sent for the symbolic contents c: the layout (compact, spaced, indented, padded, escaped)
// depends on the symbol, so that a chain that re-encodes the contents it stores is noticed
func notifBody(c string) string {
	h := 0
	for _, ch := range c {
		h = h*31 + int(ch)
	}
	switch h % 5 {
	case 1:
		return fmt.Sprintf("{\"c\": \"%s\"}", c)
	case 2:
		return fmt.Sprintf("{\n  \"c\": \"%s\"\n}", c)
	case 3:
		return fmt.Sprintf(" {\"c\":\"%s\"} ", c)
	case 4:
		return fmt.Sprintf("{\"c\":\"%s\",\"u\":\"\\u00e9\"}", c)
	}
	return fmt.Sprintf("{\"c\":\"%s\"}", c)
}

func (f *notifFam) Project() M {
	k := f.c.App.NotificationsKeeper
	inbox := M{}
	for _, l := range f.accts {
		addr := f.c.Acct(l).S()
		list := []interface{}{}
		res, err := k.AllNotificationsByAddress(sdk.WrapSDKContext(f.ctx), &ntypes.QueryAllNotificationsByAddress{To: addr})
		if err != nil {
			die(2, "notif: query: %v", err)
		}
		if len(res.Notifications) != len(k.GetAllNotificationsByAddress(f.ctx, addr)) {
			list = append(list, M{"from": "!query-getter-mismatch", "time": int64(-1), "c": ""})
		}
		// the same inbox read page by page (2 entries per page) must give the same entries in the same order,
		// and every listed entry must be retrievable by the single-notification query
		var paged []ntypes.Notification
		for off := uint64(0); off <= uint64(len(res.Notifications))+2; off += 2 {
			pr, err := k.AllNotificationsByAddress(sdk.WrapSDKContext(f.ctx), &ntypes.QueryAllNotificationsByAddress{To: addr, Pagination: &query.PageRequest{Offset: off, Limit: 2}})
			if err != nil {
				list = append(list, M{"from": "!paged-query-error", "time": int64(-1), "c": ""})
				break
			}
			paged = append(paged, pr.Notifications...)
		}
		if len(paged) != len(res.Notifications) {
			list = append(list, M{"from": "!paging-mismatch", "time": int64(-1), "c": ""})
		} else {
			for i := range paged {
				if paged[i].From != res.Notifications[i].From || paged[i].Time != res.Notifications[i].Time || paged[i].Contents != res.Notifications[i].Contents {
					list = append(list, M{"from": "!paging-mismatch", "time": int64(-1), "c": ""})
					break
				}
			}
		}
		for _, n := range res.Notifications {
			if n.Time == 0 {
				continue // block markers decode as entries with time 0 (known finding); they have no single-entry form
			}
			one, err := k.Notification(sdk.WrapSDKContext(f.ctx), &ntypes.QueryNotification{To: n.To, From: n.From, Time: n.Time})
			if err != nil || one.Notification.Contents != n.Contents {
				list = append(list, M{"from": "!single-query-mismatch", "time": int64(-1), "c": ""})
				break
			}
		}
		for _, n := range res.Notifications {
			c := n.Contents
			var m map[string]string
			if json.Unmarshal([]byte(n.Contents), &m) == nil && m["c"] != "" {
				if notifBody(m["c"]) == n.Contents { // byte for byte what was sent for that symbol
					c = m["c"]
				} else {
					c = "!rewritten:" + m["c"]
				}
			}
			if n.To != addr {
				c = "!to=" + f.c.LabelOf(n.To) + ":" + c
			}
			list = append(list, M{"from": f.c.LabelOf(n.From), "time": f.tickOf(n.Time), "c": c})
		}
		sortRecs(list)
		inbox[l] = list
	}
	blocks := []interface{}{}
	for _, o := range f.accts {
		for _, b := range f.accts {
			if k.IsBlocked(f.ctx, f.c.Acct(o).S(), f.c.Acct(b).S()) {
				blocks = append(blocks, []interface{}{o, b})
			}
		}
	}
	names := M{}
	for n, l := range f.names {
		names[n] = l
	}
	return M{"inbox": inbox, "blocks": blocks, "names": names, "time": f.tickOf(f.ctx.BlockTime().UnixMicro())}
}

func (f *notifFam) Random(rng *rand.Rand) M {
	acc := func() string { return f.accts[rng.Intn(len(f.accts))] }
	tgt := func() string {
		switch rng.Intn(6) {
		case 0:
			return "n1.jkl"
		case 1:
			return "n2.jkl"
		case 2:
			return "nx.jkl"
		}
		return acc()
	}
	switch r := rng.Intn(100); {
	case r < 40:
		return M{"a": "create", "s": acc(), "to": tgt()}
	case r < 60:
		// delete something that exists (mostly), as recipient or as somebody else
		s := acc()
		list := f.c.App.NotificationsKeeper.GetAllNotificationsByAddress(f.ctx, f.c.Acct(s).S())
		if len(list) > 0 && rng.Intn(4) != 0 {
			n := list[rng.Intn(len(list))]
			who := s
			if rng.Intn(4) == 0 {
				who = acc()
			}
			fr := f.c.LabelOf(n.From)
			if len(fr) > 3 {
				fr = acc()
			}
			return M{"a": "delete", "s": who, "from": fr, "t": f.tickOf(n.Time)}
		}
		return M{"a": "delete", "s": s, "from": acc(), "t": int64(rng.Intn(4))}
	case r < 75:
		ts := []interface{}{tgt()}
		if rng.Intn(3) == 0 {
			ts = append(ts, tgt())
		}
		return M{"a": "block", "s": acc(), "targets": ts}
	case r < 80:
		return M{"a": "repoint", "n": []string{"n1.jkl", "n2.jkl"}[rng.Intn(2)], "to": acc()}
	}
	return M{"a": "tick"}
}

package main

import (
	"bytes"
	"fmt"
	"math/rand"
	"sort"
	"strings"

	sdk "github.com/cosmos/cosmos-sdk/types"

	"github.com/jackalLabs/canine-chain/v4/app"
	"github.com/jackalLabs/canine-chain/v4/x/filetree"
	fttypes "github.com/jackalLabs/canine-chain/v4/x/filetree/types"
	"github.com/jackalLabs/canine-chain/v4/x/jklmint"
	mtypes "github.com/jackalLabs/canine-chain/v4/x/jklmint/types"
	"github.com/jackalLabs/canine-chain/v4/x/notifications"
	ntypes "github.com/jackalLabs/canine-chain/v4/x/notifications/types"
	"github.com/jackalLabs/canine-chain/v4/x/oracle"
	otypes "github.com/jackalLabs/canine-chain/v4/x/oracle/types"
	"github.com/jackalLabs/canine-chain/v4/x/rns"
	rtypes "github.com/jackalLabs/canine-chain/v4/x/rns/types"
	"github.com/jackalLabs/canine-chain/v4/x/storage"
	stypes "github.com/jackalLabs/canine-chain/v4/x/storage/types"

	"vh/chain"
)

// genFam populates all six custom modules through real messages and whole-app blocks, then exports the
// custom modules' genesis, validates it, boots a fresh chain from it and compares the raw module stores.
type genFam struct {
	rng *rand.Rand
	c   *chain.Chain
	log []string
}

func init() { families["gen"] = func() Family { return &genFam{} } }

func (f *genFam) Reseed(r *rand.Rand) { f.rng = r }

func (f *genFam) Setup(cfg M, rng *rand.Rand) { f.rng = rng }
func (f *genFam) Reset() M                    { f.c = nil; return M{} }
func (f *genFam) Project() M                  { return M{} }
func (f *genFam) Random(rng *rand.Rand) M {
	if f.c != nil {
		return nil
	}
	return M{"a": "roundtrip", "seed": rng.Int63n(1 << 30)}
}

func (f *genFam) try(m sdk.Msg) bool {
	_, err := f.c.Msg(f.c.Ctx, m)
	if err != nil {
		f.log = append(f.log, fmt.Sprintf("%T: %v", m, err))
	}
	return err == nil
}

var genStores = []string{"storage", "rns", "filetree", "oracle", "notification", "jklmint"}

func kindOf(store string, key []byte) string {
	k := string(key)
	if i := strings.Index(k, "/value/"); i >= 0 {
		return store + "/" + k[:i]
	}
	if strings.HasPrefix(k, "Notification/") {
		if strings.Count(k[len("Notification/"):], "/") >= 2 {
			return store + "/Notification"
		}
		return store + "/Block"
	}
	if strings.Contains(k, "minted_at_") {
		return store + "/MintedBlock"
	}
	if i := strings.Index(k, "/"); i >= 0 {
		return store + "/" + k[:i]
	}
	return store + "/" + k
}

func (f *genFam) populate(r *rand.Rand) {
	c := f.c
	acct := func(l string) *chain.Acct { return c.Acct(l) }
	for _, l := range []string{"a", "b", "c", "p1", "p2", "p3", "p4"} {
		c.Fund(c.Ctx, acct(l).Addr, sdk.NewCoins(sdk.NewInt64Coin("ujkl", 500_000_000)))
	}
	a, b, cc := acct("a"), acct("b"), acct("c")
	opt := func() bool { return r.Intn(4) != 0 }
	// oracle
	f.try(&otypes.MsgCreateFeed{Creator: a.S(), Name: "jklprice"})
	f.try(&otypes.MsgUpdateFeed{Creator: a.S(), Name: "jklprice", Data: `{"price":"0.25","24h_change":"0"}`})
	if opt() {
		f.try(&otypes.MsgCreateFeed{Creator: b.S(), Name: "other"})
	}
	// storage
	f.try(&stypes.MsgBuyStorage{Creator: a.S(), ForAddress: a.S(), DurationDays: 60, Bytes: 5_000_000_000, PaymentDenom: "ujkl"})
	if opt() {
		f.try(&stypes.MsgBuyStorage{Creator: b.S(), ForAddress: b.S(), DurationDays: 30, Bytes: 2_000_000_000, PaymentDenom: "ujkl", Referral: a.S()})
	}
	doms := []string{"d1", "d2", "d3", "d1"}
	for i, p := range []string{"p1", "p2", "p3", "p4"} {
		f.try(&stypes.MsgInitProvider{Creator: acct(p).S(), Ip: domURL(p, doms[i]), Keybase: "kb", TotalSpace: 1_000_000})
	}
	// the same account in several roles (provider + plan owner + name owner ...): record kinds must not collide
	if opt() {
		f.try(&stypes.MsgBuyStorage{Creator: acct("p1").S(), ForAddress: acct("p1").S(), DurationDays: 30, Bytes: 1_000_000_000, PaymentDenom: "ujkl"})
		f.try(&stypes.MsgInitProvider{Creator: b.S(), Ip: domURL("b", "d2"), Keybase: "kb", TotalSpace: 1_000_000})
	}
	if opt() {
		f.try(&stypes.MsgBuyStorage{Creator: a.S(), ForAddress: acct("p2").S(), DurationDays: 30, Bytes: 1_000_000_000, PaymentDenom: "ujkl"})
		f.try(&rtypes.MsgRegisterName{Creator: acct("p1").S(), Name: "prov.jkl", Years: 1, Data: "{}"})
		f.try(&otypes.MsgCreateFeed{Creator: acct("p3").S(), Name: "provfeed"})
		f.try(&ntypes.MsgCreateNotification{Creator: acct("p1").S(), To: acct("p1").S(), Contents: `{"n":9}`})
	}
	if opt() {
		f.try(&stypes.MsgSetProviderKeybase{Creator: acct("p1").S(), Keybase: "kb2"})
		f.try(&stypes.MsgAddClaimer{Creator: acct("p2").S(), ClaimAddress: cc.S()})
	}
	if opt() {
		// address spellings a tidy-up on write would rewrite (and rewrite again on import): trailing slashes, upper case, dot segments
		ips := []string{"https://node3.d3.com/", "https://node3.d3.com//", "HTTPS://Node3.D3.com", "https://node3.d3.com:443/x/../", "https://node3.d3.com/// "}
		f.try(&stypes.MsgSetProviderIP{Creator: acct("p3").S(), Ip: ips[r.Intn(len(ips))]})
	}
	files := []*tfile{}
	for i, m := range []string{"m1", "m2", "m3"} {
		data := []byte(strings.Repeat(m, 2+i))
		t := mkfile(m, data, 2)
		files = append(files, t)
		msg := &stypes.MsgPostFile{Creator: a.S(), Merkle: t.root, FileSize: int64(len(data)), MaxProofs: 3, Note: "{}"}
		if i == 2 {
			msg.Expires = c.H + 3*14400 + 5
		}
		f.try(msg)
	}
	start := c.H
	for i, t := range files {
		for j, p := range []string{"p1", "p2", "p3"} {
			if (i+j)%4 == 3 && !opt() {
				continue
			}
			item, hl, _ := t.proof(0)
			f.try(&stypes.MsgPostProof{Creator: acct(p).S(), Item: item, HashList: hl, Merkle: t.root, Owner: a.S(), Start: start, ToProve: 0})
		}
	}
	f.try(&stypes.MsgRequestAttestationForm{Creator: acct("p1").S(), Merkle: files[0].root, Owner: a.S(), Start: start})
	if opt() {
		for _, p := range []string{"p2", "p3", "p4"} {
			if r.Intn(2) == 0 {
				f.try(&stypes.MsgAttest{Creator: acct(p).S(), Prover: acct("p1").S(), Merkle: files[0].root, Owner: a.S(), Start: start})
				break
			}
		}
	}
	f.try(&stypes.MsgRequestReportForm{Creator: b.S(), Prover: acct("p2").S(), Merkle: files[1].root, Owner: a.S(), Start: start})
	if opt() {
		f.try(&stypes.MsgReport{Creator: acct("p3").S(), Prover: acct("p2").S(), Merkle: files[1].root, Owner: a.S(), Start: start})
	}
	// rns
	f.try(&rtypes.MsgRegisterName{Creator: a.S(), Name: "alpha.jkl", Years: 1, Data: "{}", SetPrimary: true})
	f.try(&rtypes.MsgRegisterName{Creator: b.S(), Name: "beta.jkl", Years: 2, Data: "{}"})
	f.try(&rtypes.MsgList{Creator: a.S(), Name: "alpha.jkl", Price: sdk.NewInt64Coin("ujkl", 777)})
	f.try(&rtypes.MsgBid{Creator: cc.S(), Name: "beta.jkl", Bid: sdk.NewInt64Coin("ujkl", 55)})
	f.try(&rtypes.MsgAddRecord{Creator: b.S(), Name: "beta.jkl", Value: b.S(), Data: "{}", Record: "r1"})
	f.try(&rtypes.MsgUpdate{Creator: b.S(), Name: "beta.jkl", Data: `{"site":"x"}`})
	if opt() {
		f.try(&rtypes.MsgAddRecord{Creator: b.S(), Name: "beta.jkl", Value: cc.S(), Data: `{"k":2}`, Record: "r2"})
		f.try(&rtypes.MsgRegisterName{Creator: cc.S(), Name: "GammaName.ibc", Years: 1, Data: "{}"})
		f.try(&rtypes.MsgList{Creator: b.S(), Name: "beta.jkl", Price: sdk.NewInt64Coin("ujkl", 12345)})
		f.try(&rtypes.MsgBid{Creator: a.S(), Name: "beta.jkl", Bid: sdk.NewInt64Coin("ujkl", 66)})
	}
	if opt() { // listings that outlive an owner change (transfer / accepted bid do not delist): still state, still exported
		f.try(&rtypes.MsgRegisterName{Creator: a.S(), Name: "moved.jkl", Years: 1, Data: "{}"})
		f.try(&rtypes.MsgList{Creator: a.S(), Name: "moved.jkl", Price: sdk.NewInt64Coin("ujkl", 4242)})
		f.try(&rtypes.MsgTransfer{Creator: a.S(), Name: "moved.jkl", Receiver: b.S()})
		f.try(&rtypes.MsgRegisterName{Creator: b.S(), Name: "sold.jkl", Years: 1, Data: "{}"})
		f.try(&rtypes.MsgList{Creator: b.S(), Name: "sold.jkl", Price: sdk.NewInt64Coin("ujkl", 999)})
		f.try(&rtypes.MsgBid{Creator: cc.S(), Name: "sold.jkl", Bid: sdk.NewInt64Coin("ujkl", 77)})
		f.try(&rtypes.MsgAcceptBid{Creator: b.S(), Name: "sold.jkl", From: cc.S()})
	}
	if opt() {
		f.try(&rtypes.MsgInit{Creator: cc.S()})
		f.try(&rtypes.MsgMakePrimary{Creator: b.S(), Name: "beta.jkl"})
	}
	// filetree
	f.try(&fttypes.MsgPostKey{Creator: a.S(), Key: "pubkey-a"})
	ed := fmt.Sprintf("{\"%s\":\"k\"}", editorID("t", a.S()))
	f.try(&fttypes.MsgProvisionFileTree{Creator: a.S(), Viewers: "{}", Editors: ed, TrackingNumber: "t"})
	f.try(&fttypes.MsgPostFile{Creator: a.S(), Account: hx(a.S()), HashParent: fttypes.MerklePath("s"), HashChild: hx("c"), Contents: "x", Viewers: "{}", Editors: ed, TrackingNumber: "t"})
	if opt() {
		f.try(&fttypes.MsgProvisionFileTree{Creator: b.S(), Viewers: fmt.Sprintf("{\"%s\":\"vk\"}", viewerID("t2", b.S())), Editors: "{}", TrackingNumber: "t2"})
		f.try(&fttypes.MsgPostKey{Creator: b.S(), Key: "pubkey-b"})
	}
	// notifications
	f.try(&ntypes.MsgCreateNotification{Creator: a.S(), To: b.S(), Contents: `{"n":1}`})
	f.try(&ntypes.MsgCreateNotification{Creator: b.S(), To: "alpha.jkl", Contents: `{"n":2}`, PrivateContents: []byte{0, 1, 2, 0xff, 0x7f}})
	f.try(&ntypes.MsgBlockSenders{Creator: a.S(), ToBlock: []string{cc.S()}})
	// blocks: mint history, reward blocks, gauge releases
	for n := 3 + r.Intn(8); n > 0; n-- {
		if p := c.Next(); p != nil {
			die(2, "gen: block panicked: %v", p)
		}
		if r.Intn(3) == 0 {
			f.try(&ntypes.MsgCreateNotification{Creator: cc.S(), To: b.S(), Contents: `{"n":3}`})
		}
		if r.Intn(4) == 0 { // a recipient blocks a sender whose earlier notifications are still in its inbox
			f.try(&ntypes.MsgBlockSenders{Creator: b.S(), ToBlock: []string{a.S()}})
		}
		// listed provers keep proving their current challenge (p3 stops half-way and gets dropped)
		for _, t := range files {
			uf, ok := c.App.StorageKeeper.GetFile(c.Ctx, t.root, a.S(), start)
			if !ok {
				continue
			}
			for _, pk := range uf.Proofs {
				prover := strings.Split(pk, "/")[0]
				if prover == acct("p3").S() && n < 3 {
					continue
				}
				pr, ok := c.App.StorageKeeper.GetProofWithBuiltKey(c.Ctx, []byte(pk))
				if !ok {
					continue
				}
				if item, hl, ok := t.proof(pr.ChunkToProve); ok {
					f.try(&stypes.MsgPostProof{Creator: prover, Item: item, HashList: hl, Merkle: t.root, Owner: a.S(), Start: start, ToProve: pr.ChunkToProve})
				}
			}
		}
	}
}

type kindStat struct{ n, lost, changed, extra int }

func (f *genFam) Apply(st M) M {
	r := rand.New(rand.NewSource(geti(st, "seed")))
	mintSet := int(geti(st, "seed") % 1000003)
	if mintSet < 0 {
		mintSet = -mintSet
	}
	f.log = nil
	par := func(gs app.GenesisState, a *app.JackalApp) {
		var sg stypes.GenesisState
		a.AppCodec().MustUnmarshalJSON(gs["storage"], &sg)
		sg.Params.ProofWindow, sg.Params.CheckWindow, sg.Params.ChunkSize = 3, 4, 2
		sg.Params.AttestFormSize, sg.Params.AttestMinToPass = 2, 2
		sg.Params.CollateralPrice = 1000
		gs["storage"] = a.AppCodec().MustMarshalJSON(&sg)
		var og otypes.GenesisState
		a.AppCodec().MustUnmarshalJSON(gs["oracle"], &og)
		og.Params.Deposit = chain.NewAcct("oracle-deposit").S()
		gs["oracle"] = a.AppCodec().MustMarshalJSON(&og)
	}
	par2 := func(gs app.GenesisState, a *app.JackalApp) {
		par(gs, a)
		var rg rtypes.GenesisState
		a.AppCodec().MustUnmarshalJSON(gs["rns"], &rg)
		rg.Params.DepositAccount = chain.NewAcct("rns-deposit").S()
		gs["rns"] = a.AppCodec().MustMarshalJSON(&rg)
		var mg mtypes.GenesisState
		a.AppCodec().MustUnmarshalJSON(gs["jklmint"], &mg)
		// governance-set values, some of them zero in every other round trip (zero is a legal value, not "unset")
		sets := [][5]int64{{1_234_567, 7, 70, 10, 15}, {1_234_567, 0, 70, 10, 15}, {42, 7, 100, 0, 0}, {1_234_567, 7, 88, 0, 12}, {0, 0, 0, 50, 50}, {1_234_567, 7, 70, 10, 0}}
		ps := sets[mintSet%len(sets)]
		mg.Params.TokensPerBlock, mg.Params.MintDecrease = ps[0], ps[1]
		mg.Params.StakerRatio, mg.Params.DevGrantsRatio, mg.Params.StorageProviderRatio = ps[2], ps[3], ps[4]
		gs["jklmint"] = a.AppCodec().MustMarshalJSON(&mg)
	}
	f.c = chain.New(par2)
	f.c.Step = 24 * 3600 * 1e9
	{ // the same values again through the keeper, as a parameter-change proposal would set them on the running chain
		// (an InitGenesis that rewrites values on import must not be able to hide behind having rewritten the first chain's too)
		sets := [][5]int64{{1_234_567, 7, 70, 10, 15}, {1_234_567, 0, 70, 10, 15}, {42, 7, 100, 0, 0}, {1_234_567, 7, 88, 0, 12}, {0, 0, 0, 50, 50}, {1_234_567, 7, 70, 10, 0}}
		ps := sets[mintSet%len(sets)]
		mp := f.c.App.MintKeeper.GetParams(f.c.Ctx)
		mp.TokensPerBlock, mp.MintDecrease, mp.StakerRatio, mp.DevGrantsRatio, mp.StorageProviderRatio = ps[0], ps[1], ps[2], ps[3], ps[4]
		f.c.App.MintKeeper.SetParams(f.c.Ctx, mp)
		if mintSet%2 == 1 { // storage shares at zero, set on the running chain
			sp := f.c.App.StorageKeeper.GetParams(f.c.Ctx)
			sp.ReferralCommission, sp.PolRatio = 0, 0
			f.c.App.StorageKeeper.SetParams(f.c.Ctx, sp)
		}
	}
	f.populate(r)
	c1 := f.c
	ctx := c1.Ctx
	cdc := c1.App.AppCodec()
	ap := c1.App
	// export + validate; a module whose export, validation or import panics is reported as not valid / not re-exportable
	// (never as a harness failure: a genesis that cannot be written or read back is exactly what C19 excludes)
	type gen interface {
		Validate() error
	}
	exportAll := func(ctx sdk.Context, ap *app.JackalApp) (map[string][]byte, M) {
		exp, valid := map[string][]byte{}, M{}
		one := func(name string, f func() (gen, []byte)) {
			valid[name] = false
			defer func() { recover() }()
			g, bz := f()
			exp[name] = bz
			valid[name] = g.Validate() == nil
		}
		one("storage", func() (gen, []byte) {
			g := storage.ExportGenesis(ctx, ap.StorageKeeper)
			return g, cdc.MustMarshalJSON(g)
		})
		one("rns", func() (gen, []byte) { g := rns.ExportGenesis(ctx, ap.RnsKeeper); return g, cdc.MustMarshalJSON(g) })
		one("filetree", func() (gen, []byte) {
			g := filetree.ExportGenesis(ctx, ap.FileTreeKeeper)
			return g, cdc.MustMarshalJSON(g)
		})
		one("oracle", func() (gen, []byte) {
			g := oracle.ExportGenesis(ctx, ap.OracleKeeper)
			return g, cdc.MustMarshalJSON(g)
		})
		one("notification", func() (gen, []byte) {
			g := notifications.ExportGenesis(ctx, ap.NotificationsKeeper)
			return g, cdc.MustMarshalJSON(g)
		})
		one("jklmint", func() (gen, []byte) { g := jklmint.ExportGenesis(ctx, ap.MintKeeper); return g, cdc.MustMarshalJSON(g) })
		return exp, valid
	}
	exp1, valid := exportAll(ctx, ap)
	gsName := map[string]string{"storage": "storage", "rns": "rns", "filetree": "filetree", "oracle": "oracle", "notification": "notification", "jklmint": "jklmint"}
	// fresh chain booted from the exported genesis of the custom modules
	var c2 *chain.Chain
	func() {
		defer func() {
			if p := recover(); p != nil {
				c2 = nil
			}
		}()
		c2 = chain.NewClosed(func(gs app.GenesisState, a *app.JackalApp) {
			for st, bz := range exp1 {
				if bz != nil {
					gs[gsName[st]] = bz
				}
			}
		})
	}()
	if c2 == nil { // the exported genesis cannot be imported at all: nothing is preserved
		none := M{}
		for m := range valid {
			valid[m] = false
			none[m] = false
		}
		c1.Close()
		return M{"a": "roundtrip", "kinds": []interface{}{}, "valid": valid, "reexport": none, "params": none, "ok": true,
			"x": M{"seed": geti(st, "seed"), "import": "InitChain of a fresh application with the exported genesis panicked"}}
	}
	ctx2 := c2.Ctx
	ap2 := c2.App
	exp2, _ := exportAll(ctx2, ap2)
	reexp := M{}
	for st := range valid {
		reexp[st] = exp1[st] != nil && exp2[st] != nil && bytes.Equal(exp1[st], exp2[st])
	}
	// raw store comparison per record kind
	stats := map[string]*kindStat{}
	get := func(k string) *kindStat {
		if s, ok := stats[k]; ok {
			return s
		}
		s := &kindStat{}
		stats[k] = s
		return s
	}
	for _, st := range genStores {
		m1 := map[string][]byte{}
		for _, kv := range c1.DumpStore(ctx, st) {
			m1[string(kv[0])] = kv[1]
			get(kindOf(st, kv[0])).n++
		}
		m2 := map[string][]byte{}
		for _, kv := range c2.DumpStore(ctx2, st) {
			m2[string(kv[0])] = kv[1]
		}
		for k, v := range m1 {
			v2, ok := m2[k]
			switch {
			case !ok:
				get(kindOf(st, []byte(k))).lost++
			case !bytes.Equal(v, v2):
				get(kindOf(st, []byte(k))).changed++
			}
		}
		for k := range m2 {
			if _, ok := m1[k]; !ok {
				get(kindOf(st, []byte(k))).extra++
			}
		}
	}
	// module parameters live in the params store: compare through the keepers
	parEq := M{}
	cmpPar := func(name string, f func() bool) {
		parEq[name] = false
		defer func() { recover() }() // reading parameters that were never stored panics in the params subspace
		parEq[name] = f()
	}
	cmpPar("storage", func() bool { return ap.StorageKeeper.GetParams(ctx) == ap2.StorageKeeper.GetParams(ctx2) })
	cmpPar("rns", func() bool { return ap.RnsKeeper.GetParams(ctx) == ap2.RnsKeeper.GetParams(ctx2) })
	cmpPar("filetree", func() bool { return ap.FileTreeKeeper.GetParams(ctx) == ap2.FileTreeKeeper.GetParams(ctx2) })
	cmpPar("oracle", func() bool { return ap.OracleKeeper.GetParams(ctx) == ap2.OracleKeeper.GetParams(ctx2) })
	cmpPar("notification", func() bool { return ap.NotificationsKeeper.GetParams(ctx) == ap2.NotificationsKeeper.GetParams(ctx2) })
	cmpPar("jklmint", func() bool { return ap.MintKeeper.GetParams(ctx) == ap2.MintKeeper.GetParams(ctx2) })
	kinds := []interface{}{}
	names := []string{}
	for k := range stats {
		names = append(names, k)
	}
	sort.Strings(names)
	for _, k := range names {
		s := stats[k]
		kinds = append(kinds, M{"k": k, "n": int64(s.n), "lost": int64(s.lost), "changed": int64(s.changed), "extra": int64(s.extra)})
	}
	c1.Close()
	c2.Close()
	return M{"a": "roundtrip", "kinds": kinds, "valid": valid, "reexport": reexp, "params": parEq, "ok": true,
		"x": M{"seed": geti(st, "seed"), "refused": int64(len(f.log)), "log": strings.Join(f.log, " || ")}}
}

// Package chain instantiates the real JackalApp on an in-memory DB and offers the
// delivery modes described in DESIGN.md §2.4.
package chain

import (
	"encoding/json"
	"fmt"
	"os"
	"sort"
	"sync"
	"time"

	"github.com/CosmWasm/wasmd/x/wasm"
	wasmtypes "github.com/CosmWasm/wasmd/x/wasm/types"
	"github.com/cosmos/cosmos-sdk/crypto/keys/secp256k1"
	"github.com/cosmos/cosmos-sdk/store/rootmulti"
	sdk "github.com/cosmos/cosmos-sdk/types"
	authtypes "github.com/cosmos/cosmos-sdk/x/auth/types"
	abci "github.com/tendermint/tendermint/abci/types"
	"github.com/tendermint/tendermint/libs/log"
	tmproto "github.com/tendermint/tendermint/proto/tendermint/types"
	dbm "github.com/tendermint/tm-db"

	"github.com/jackalLabs/canine-chain/v4/app"
	jtypes "github.com/jackalLabs/canine-chain/v4/types"
)

var cfgOnce sync.Once

func Config() {
	cfgOnce.Do(func() {
		cfg := sdk.GetConfig()
		cfg.SetBech32PrefixForAccount(app.Bech32PrefixAccAddr, app.Bech32PrefixAccPub)
		cfg.SetBech32PrefixForValidator(app.Bech32PrefixValAddr, app.Bech32PrefixValPub)
		cfg.SetBech32PrefixForConsensusNode(app.Bech32PrefixConsAddr, app.Bech32PrefixConsPub)
		cfg.SetAddressVerifier(wasmtypes.VerifyAddressLen())
	})
}

// Acct is a labelled account with a deterministic key.
type Acct struct {
	Label string
	Priv  *secp256k1.PrivKey
	Addr  sdk.AccAddress
}

func NewAcct(label string) *Acct {
	p := secp256k1.GenPrivKeyFromSecret([]byte("vh-acct-" + label))
	return &Acct{Label: label, Priv: p, Addr: sdk.AccAddress(p.PubKey().Address())}
}

func (a *Acct) S() string { return a.Addr.String() }

// Chain wraps one JackalApp instance.
type Chain struct {
	SimulateOnly bool // Deliver only simulates (no state change expected) while set
	App          *app.JackalApp
	H            int64
	T            time.Time
	Step         time.Duration
	Ctx          sdk.Context // deliver-state context of the open block (valid between Begin and End)
	dir          string
	labels       map[string]string // bech32 -> label
	Accts        map[string]*Acct
	ChainID      string
	Open         bool // a block is open (Begin succeeded, End not yet called)
}

type GenMut func(gs app.GenesisState, a *app.JackalApp)

// New creates the app, runs InitChain with the (mutated) default genesis, commits, and opens block 2.
func New(muts ...GenMut) *Chain {
	c := NewClosed(muts...)
	if p := c.Begin(); p != nil {
		panic(fmt.Sprintf("first BeginBlock panicked: %v", p))
	}
	return c
}

// NewClosed is New without opening block 2: the chain is at committed height 1 and Ctx is a read-only
// context on the committed state until Begin is called.
func NewClosed(muts ...GenMut) *Chain {
	Config()
	dir, err := os.MkdirTemp("", "vh-home-")
	if err != nil {
		panic(err)
	}
	db := dbm.NewMemDB()
	a := app.NewJackalApp(log.NewNopLogger(), db, nil, true, map[int64]bool{}, dir, 0, app.MakeEncodingConfig(), wasm.EnableAllProposals, app.EmptyBaseAppOptions{}, nil)
	gs := app.NewDefaultGenesisState()
	for _, m := range muts {
		if m != nil {
			m(gs, a)
		}
	}
	sb, err := json.Marshal(gs)
	if err != nil {
		panic(err)
	}
	a.InitChain(abci.RequestInitChain{ConsensusParams: app.DefaultConsensusParams, AppStateBytes: sb, ChainId: ""})
	a.Commit()
	c := &Chain{App: a, H: 1, T: time.Unix(1700000000, 0).UTC(), Step: 6 * time.Second, dir: dir,
		labels: map[string]string{}, Accts: map[string]*Acct{}}
	c.registerModuleLabels()
	c.Ctx = a.BaseApp.NewContext(true, tmproto.Header{Height: c.H, Time: c.T})
	return c
}

func (c *Chain) Close() { os.RemoveAll(c.dir) }

func (c *Chain) registerModuleLabels() {
	for _, m := range []string{"storage", "rns", "jklmint", "fee_collector", "distribution", "storage_collateral_name", "bonded_tokens_pool", "not_bonded_tokens_pool", "gov", "oracle", "notifications", "filetree", "mint", "transfer", "wasm"} {
		c.labels[authtypes.NewModuleAddress(m).String()] = "m:" + m
	}
	if pol, err := jtypes.GetPOLAccount(); err == nil {
		c.labels[pol.String()] = "pol"
	}
}

// Label registers (or returns) a labelled account.
func (c *Chain) Acct(label string) *Acct {
	if a, ok := c.Accts[label]; ok {
		return a
	}
	a := NewAcct(label)
	c.Accts[label] = a
	c.labels[a.S()] = label
	return a
}

// SetLabel gives a name to an arbitrary address (e.g. a gauge escrow account).
func (c *Chain) SetLabel(addr string, label string) { c.labels[addr] = label }

// LabelOf maps an address string to its label, or "?<addr>" when unknown.
func (c *Chain) LabelOf(addr string) string {
	if l, ok := c.labels[addr]; ok {
		return l
	}
	return "?" + addr
}

func (c *Chain) Known(addr string) bool { _, ok := c.labels[addr]; return ok }

// Begin opens the next block through ABCI; returns the recovered panic value, if any.
func (c *Chain) Begin() (panicked interface{}) {
	c.H++
	c.T = c.T.Add(c.Step)
	hdr := tmproto.Header{Height: c.H, Time: c.T}
	func() {
		defer func() { panicked = recover() }()
		c.App.BeginBlock(abci.RequestBeginBlock{Header: hdr})
	}()
	if panicked == nil {
		c.Ctx = c.App.BaseApp.NewContext(false, hdr)
		c.Open = true
	}
	return
}

// End closes the open block; returns a recovered panic value of EndBlock, if any, and the app hash.
func (c *Chain) End() (panicked interface{}, appHash []byte) {
	func() {
		defer func() { panicked = recover() }()
		c.App.EndBlock(abci.RequestEndBlock{Height: c.H})
	}()
	if panicked != nil {
		return
	}
	r := c.App.Commit()
	c.Open = false
	return nil, r.Data
}

func (c *Chain) Next() interface{} {
	if c.Open {
		if p, _ := c.End(); p != nil {
			return p
		}
	}
	return c.Begin()
}

// Msg runs one message in router mode on ctx with SDK runMsgs discipline:
// ValidateBasic, handler on a cache context, write back only on nil error; panics are recovered.
func (c *Chain) Msg(ctx sdk.Context, m sdk.Msg) (res *sdk.Result, err error) {
	if e := m.ValidateBasic(); e != nil {
		return nil, fmt.Errorf("validatebasic: %w", e)
	}
	h := c.App.MsgServiceRouter().Handler(m)
	if h == nil {
		return nil, fmt.Errorf("no route")
	}
	cctx, write := ctx.CacheContext()
	defer func() {
		if r := recover(); r != nil {
			err = fmt.Errorf("panic: %v", r)
			res = nil
		}
	}()
	res, err = h(cctx, m)
	if err == nil {
		write()
	}
	return
}

// Deliver signs msgs with the given signers and runs them through DeliverTx (real ante handler).
func (c *Chain) Deliver(msgs []sdk.Msg, signers ...*Acct) abci.ResponseDeliverTx {
	txc := app.MakeEncodingConfig().TxConfig
	var nums, seqs []uint64
	pk := make([]*secp256k1.PrivKey, 0, len(signers))
	for _, s := range signers {
		acc := c.App.AccountKeeper.GetAccount(c.Ctx, s.Addr)
		if acc == nil {
			nums = append(nums, 0)
			seqs = append(seqs, 0)
		} else {
			nums = append(nums, acc.GetAccountNumber())
			seqs = append(seqs, acc.GetSequence())
		}
		pk = append(pk, s.Priv)
	}
	tx, err := genTx(txc, msgs, 20_000_000, c.ChainID, nums, seqs, pk)
	if err != nil {
		return abci.ResponseDeliverTx{Code: 1, Log: "gentx: " + err.Error(), Codespace: "vh"}
	}
	bz, err := txc.TxEncoder()(tx)
	if err != nil {
		return abci.ResponseDeliverTx{Code: 1, Log: "encode: " + err.Error(), Codespace: "vh"}
	}
	if c.SimulateOnly {
		// what a node serving /app/simulate (gas estimation) does: the transaction runs on a throw-away branch of the state
		func() {
			defer func() { recover() }()
			c.App.Simulate(bz) //nolint:errcheck
		}()
		return abci.ResponseDeliverTx{}
	}
	return c.App.DeliverTx(abci.RequestDeliverTx{Tx: bz})
}

// Fund mints through the jklmint module account and sends to addr.
func (c *Chain) Fund(ctx sdk.Context, addr sdk.AccAddress, coins sdk.Coins) {
	if err := c.App.BankKeeper.MintCoins(ctx, "jklmint", coins); err != nil {
		panic(err)
	}
	if err := c.App.BankKeeper.SendCoinsFromModuleToAccount(ctx, "jklmint", addr, coins); err != nil {
		panic(err)
	}
}

// Balances returns label -> denom -> amount for all accounts; unknown addresses are
// summed under "other". Amounts that do not fit 31 bits abort (exit 2 by the caller).
func (c *Chain) Balances(ctx sdk.Context, denoms []string) map[string]map[string]int64 {
	out := map[string]map[string]int64{}
	zero := func() map[string]int64 {
		m := map[string]int64{}
		for _, d := range denoms {
			m[d] = 0
		}
		return m
	}
	for _, l := range c.labels {
		out[l] = zero()
	}
	out["other"] = zero()
	want := map[string]bool{}
	for _, d := range denoms {
		want[d] = true
	}
	iterate := func() (ok bool) {
		defer func() {
			if recover() != nil {
				ok = false
			}
		}()
		c.App.BankKeeper.IterateAllBalances(ctx, func(a sdk.AccAddress, coin sdk.Coin) bool {
			if !want[coin.Denom] {
				return false
			}
			l, ok := c.labels[a.String()]
			if !ok {
				l = "other"
			}
			out[l][coin.Denom] += coin.Amount.Int64()
			return false
		})
		return true
	}
	if !iterate() {
		// the bank store cannot be walked (a balance was written under an address that is not one, e.g. the empty address):
		// read the labelled accounts one by one and attribute the rest of the supply to "other"
		for _, l := range c.labels {
			out[l] = zero()
		}
		out["other"] = zero()
		for addr, l := range c.labels {
			if a, err := sdk.AccAddressFromBech32(addr); err == nil {
				for _, d := range denoms {
					out[l][d] += c.App.BankKeeper.GetBalance(ctx, a, d).Amount.Int64()
				}
			}
		}
		for _, d := range denoms {
			sum := int64(0)
			for _, m := range out {
				sum += m[d]
			}
			out["other"][d] += c.App.BankKeeper.GetSupply(ctx, d).Amount.Int64() - sum
		}
	}
	return out
}

func SortedKeys[V any](m map[string]V) []string {
	ks := make([]string, 0, len(m))
	for k := range m {
		ks = append(ks, k)
	}
	sort.Strings(ks)
	return ks
}

// Key returns the mounted store key with the given name (the app keeps its key map private;
// the root multistore exposes the mounted keys).
func (c *Chain) Key(name string) sdk.StoreKey {
	rs, ok := c.App.CommitMultiStore().(*rootmulti.Store)
	if !ok {
		panic("commit multistore is not rootmulti")
	}
	for k := range rs.GetStores() {
		if k.Name() == name {
			return k
		}
	}
	panic("no store " + name)
}

// DumpStore returns all key/value pairs of a module store as seen from ctx.
func (c *Chain) DumpStore(ctx sdk.Context, name string) [][2][]byte {
	st := ctx.KVStore(c.Key(name))
	it := st.Iterator(nil, nil)
	defer it.Close()
	var out [][2][]byte
	for ; it.Valid(); it.Next() {
		k := append([]byte{}, it.Key()...)
		v := append([]byte{}, it.Value()...)
		out = append(out, [2][]byte{k, v})
	}
	return out
}

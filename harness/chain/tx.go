package chain

import (
	"github.com/cosmos/cosmos-sdk/client"
	"github.com/cosmos/cosmos-sdk/crypto/keys/secp256k1"
	sdk "github.com/cosmos/cosmos-sdk/types"
	"github.com/cosmos/cosmos-sdk/types/tx/signing"
	authsign "github.com/cosmos/cosmos-sdk/x/auth/signing"
)

// genTx is simapp/helpers.GenSignedMockTx with a fixed memo and no fee (deterministic bytes).
func genTx(gen client.TxConfig, msgs []sdk.Msg, gas uint64, chainID string, accNums, accSeqs []uint64, priv []*secp256k1.PrivKey) (sdk.Tx, error) {
	sigs := make([]signing.SignatureV2, len(priv))
	signMode := gen.SignModeHandler().DefaultMode()
	for i, p := range priv {
		sigs[i] = signing.SignatureV2{
			PubKey:   p.PubKey(),
			Data:     &signing.SingleSignatureData{SignMode: signMode},
			Sequence: accSeqs[i],
		}
	}
	tx := gen.NewTxBuilder()
	if err := tx.SetMsgs(msgs...); err != nil {
		return nil, err
	}
	if err := tx.SetSignatures(sigs...); err != nil {
		return nil, err
	}
	tx.SetMemo("vh")
	tx.SetFeeAmount(sdk.Coins{})
	tx.SetGasLimit(gas)
	for i, p := range priv {
		signerData := authsign.SignerData{ChainID: chainID, AccountNumber: accNums[i], Sequence: accSeqs[i]}
		signBytes, err := gen.SignModeHandler().GetSignBytes(signMode, signerData, tx.GetTx())
		if err != nil {
			return nil, err
		}
		sig, err := p.Sign(signBytes)
		if err != nil {
			return nil, err
		}
		sigs[i].Data.(*signing.SingleSignatureData).Signature = sig
		if err := tx.SetSignatures(sigs...); err != nil {
			return nil, err
		}
	}
	return tx.GetTx(), nil
}

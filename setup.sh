#!/bin/sh
# Offline setup: warm the Go build cache for the harness (everything else is interpreted).
set -e
cd /verif/harness
cp /repo/go.sum go.sum
GOFLAGS=-mod=mod GOPROXY=off GOSUMDB=off GOTOOLCHAIN=local go build -tags verif -o /dev/null ./cmd/vh
echo setup ok
